#!/usr/bin/env python3
"""Verify an independently written property-breaking change and file it under /verif/seeded/.

  tools/ingest_seed.py <property id> <dir with patch{k}.diff demo{k}.py notes{k}.md> <k> [extra checks, comma separated]

Steps (all in a scratch worktree of /repo under /tmp, removed afterwards; /repo itself is never touched):
  demo on the clean tree must exit 0; patch must apply; the repository's test-suite must still pass (192);
  demo on the patched tree must exit 1; then the property's quick check (and any extra checks) is run against the
  patched tree; if the quick tier misses it the thorough tier is tried.
"""
import json
import os
import shutil
import subprocess
import sys
import tempfile
import time

VERIF = os.path.dirname(os.path.dirname(os.path.abspath(__file__)))


def run(cmd, cwd=None, env=None, timeout=3600):
    p = subprocess.run(cmd, cwd=cwd, env=env, capture_output=True, text=True, timeout=timeout)
    return p.returncode, (p.stdout or "") + (p.stderr or "")


def main():
    pid, src, k = sys.argv[1], os.path.abspath(sys.argv[2]), sys.argv[3]
    extra = sys.argv[4].split(",") if len(sys.argv) > 4 else []
    patch, demo, notes = (os.path.join(src, n % k) for n in ("patch%s.diff", "demo%s.py", "notes%s.md"))
    name = "%s-%s" % (pid, k)
    wt = tempfile.mkdtemp(prefix="gbasis-seed-", dir="/tmp")
    os.rmdir(wt)
    meta = {"property": pid, "name": name, "ingested_at": time.strftime("%Y-%m-%d %H:%M:%S"), "repo_head": run(["git", "-C", "/repo", "rev-parse", "--short", "HEAD"])[1].strip()}
    ok = True
    try:
        run(["git", "-C", "/repo", "worktree", "add", "-q", "--detach", wt, "HEAD"])
        env = {**os.environ, "PYTHONPATH": wt}
        rc, out = run(["/venv/bin/python", demo], cwd=wt, env=env)
        meta["demo_clean_rc"] = rc
        rc, out = run(["git", "-C", wt, "apply", patch])
        if rc != 0:
            rc, out = run(["git", "-C", wt, "apply", "--3way", patch])
            meta["applied_with"] = "git apply --3way (the repository moved on since the patch was written)"
            run(["git", "-C", wt, "reset", "-q"])
        if rc != 0:
            # last resort: the tree the patch was written against
            base = os.environ.get("SEED_BASE", "6cdb13b")
            run(["git", "-C", wt, "checkout", "-q", "-f", "--detach", base])
            run(["git", "-C", wt, "checkout", "-q", "--", "."])
            rc, out = run(["git", "-C", wt, "apply", patch])
            meta["applied_with"] = "applied to the older tree %s it was written against (conflicts with a later fix commit)" % base
            meta["repo_head"] = base
        meta["patch_applies"] = rc == 0
        if rc != 0:
            print("patch does not apply:", out[:300])
            ok = False
        else:
            rc, out = run(["/venv/bin/python", "-m", "pytest", "-q", "-p", "no:cacheprovider", "-n", "8", "tests"], cwd=wt, env=env)
            last = (out.strip().splitlines() or ["?"])[-1]
            meta["tests_with_patch"] = last
            rc, out = run(["/venv/bin/python", demo], cwd=wt, env=env)
            meta["demo_patched_rc"] = rc
            meta["demo_patched_tail"] = out.strip().splitlines()[-3:]
            import re
            ok = meta["demo_clean_rc"] == 0 and rc == 1 and "192 passed" in last and not re.search(r"\b\d+ (failed|error)", last)
            meta["confirmed"] = ok
            results = {}
            for c in [pid] + extra:
                for tier in (("quick",) if os.environ.get("INGEST_TIERS") == "quick" else ("quick", "thorough")):
                    rc, out = run([os.path.join(VERIF, "bin", "check"), c, "--tier", tier], cwd=VERIF, env={**os.environ, "VERIF_REPO": wt}, timeout=4 * 3600)
                    lines = [ln for ln in out.splitlines() if ln.startswith(("VIOLATION", "INCONCLUSIVE"))]
                    results["%s/%s" % (c, tier)] = {"rc": rc, "first": (lines[0] if lines else (out.strip().splitlines() or [""])[-1])[:300]}
                    print("%s %s rc=%d %s" % (c, tier, rc, results["%s/%s" % (c, tier)]["first"][:200]))
                    if rc == 1:
                        break
            meta["checks"] = results
            meta["caught_by"] = sorted({k_.split("/")[0] + ":" + k_.split("/")[1] for k_, v in results.items() if v["rc"] == 1})
    finally:
        run(["git", "-C", "/repo", "worktree", "remove", "--force", wt])
        shutil.rmtree(wt, ignore_errors=True)
        run(["git", "-C", "/repo", "worktree", "prune"])
    print(json.dumps({k_: v for k_, v in meta.items() if k_ != "checks"}, indent=1))
    if ok:
        dst = os.path.join(VERIF, "seeded", name)
        os.makedirs(dst, exist_ok=True)
        shutil.copy(patch, os.path.join(dst, "patch.diff"))
        shutil.copy(demo, os.path.join(dst, "demo.py"))
        if os.path.exists(notes):
            shutil.copy(notes, os.path.join(dst, "notes.md"))
            with open(notes) as fh:
                meta["needs_to_manifest"] = fh.read()[:1500]
        meta["what_was_run"] = "demo on clean worktree (rc 0), git apply, full pytest suite on the patched worktree, demo on the patched worktree (rc 1), then ./bin/check with VERIF_REPO=<patched worktree>"
        with open(os.path.join(dst, "meta.json"), "w") as fh:
            json.dump(meta, fh, indent=1)
    return 0 if ok else 1


if __name__ == "__main__":
    sys.exit(main())
