#!/usr/bin/env python3
"""Markdown table of the kept property-breaking changes and the checks that catch them (from seeded/*/meta.json
and, when present, the uniform re-audit seeded/AUDIT.json)."""
import glob
import json
import os

VERIF = os.path.dirname(os.path.dirname(os.path.abspath(__file__)))
audit = {}
p = os.path.join(VERIF, "seeded", "AUDIT.json")
if os.path.exists(p):
    audit = {r["name"]: r for r in json.load(open(p))}
print("| change | breaks | mechanism (from the author's notes) | caught by (at ingestion) | current quick tier |")
print("|---|---|---|---|---|")
for d in sorted(glob.glob(os.path.join(VERIF, "seeded", "C*-*"))):
    m = json.load(open(os.path.join(d, "meta.json")))
    name = os.path.basename(d)
    notes = ""
    n = os.path.join(d, "notes.md")
    if os.path.exists(n):
        lines = [l.strip(" #*-`") for l in open(n).read().splitlines() if l.strip()]
        notes = (lines[0] if lines else "")[:110].replace("|", "/")
    by = ", ".join(m.get("caught_by", [])) or "missed"
    if m.get("strengthening_history"):
        by += " (after strengthening)"
    a = audit.get(name)
    cur = (a["by"].replace("CAUGHT by ", "") if a else "-")
    print("| %s | %s | %s | %s | %s |" % (name, m["property"], notes, by, cur))
