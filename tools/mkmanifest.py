#!/usr/bin/env python3
"""Regenerate MANIFEST.json from tools/claims.json (one entry per claimed property)."""
import json
import os

HERE = os.path.dirname(os.path.dirname(os.path.abspath(__file__)))
claims = json.load(open(os.path.join(HERE, "tools", "claims.json")))
props = [json.loads(l) for l in open(os.path.join(HERE, "properties.jsonl"))]
hooks = json.load(open(os.path.join(HERE, "tools", "hooks.json")))
checks = []
na = []
for p in props:
    pid = p["id"]
    c = claims.get(pid)
    if not c or c.get("not_applicable"):
        na.append({"property_id": pid, "reason": (c or {}).get("not_applicable", "check not built yet in this round")})
        continue
    checks.append({
        "property_id": pid,
        "quick_cmd": "./bin/check %s --tier quick" % pid,
        "thorough_cmd": "./bin/check %s --tier thorough" % pid,
        "evidence_file": "/verif/evidence/%s.json" % pid,
        "replay_cmd_template": "./bin/check %s --replay {path}" % pid,
        "engine": "vmon",
        "level_claimed": {"category": "exploration", "text": c["text"], "design_ref": c.get("design_ref", "DESIGN.md section 3, " + pid)},
        "level_note": c.get("note", "Trusted base: the independent reference model vmon/ref (validated by vmon/selftest.py against third-party HORTON arrays, mpmath Boys values and its own internal cross-checks), numpy/scipy/mpmath, icontract. Held = held on the executions observed; nothing is claimed about inputs no generator produces."),
        "technique": c["technique"],
    })
m = {
    "version": 1,
    "setup_cmd": "./bin/setup",
    "hooks": hooks,
    "engines": [{"name": "vmon", "path": "/verif/vmon", "serves_properties": [c["property_id"] for c in checks],
                 "kind_free_text": "runtime monitors (icontract postconditions + raise-path guards on the real gbasis functions, reference-model oracles, two-execution trace checkers, purity/FP-state/write-protect/freshness sentinels, sys.monitoring coverage observer) driven by generated hostile workloads in 16 subprocess shards"}],
    "checks": checks,
    "notes": "Three-valued verdicts: exit 0 held / exit 1 VIOLATION / exit 2 INCONCLUSIVE (never on the unchanged tree). Known findings: /verif/known_findings.json. VERIF_SEED selects the workload slice; VERIF_REPO (default /repo) selects the tree under test.",
    "not_applicable": na,
}
json.dump(m, open(os.path.join(HERE, "MANIFEST.json"), "w"), indent=1)
print("claimed:", [c["property_id"] for c in checks], "not claimed:", [n["property_id"] for n in na])
