#!/usr/bin/env python3
"""Re-audit every kept property-breaking change (seeded/ and mutants/) with the CURRENT checks, quick tier.

  tools/audit_all.py [-j N]     -> writes seeded/AUDIT.json and prints a markdown table
For each change the checks listed in its meta.json (`caught_by`, else its own property) are run against a scratch
worktree with the patch applied; "caught" = some check exits 1 with a VIOLATION line.
"""
import concurrent.futures as cf
import glob
import json
import os
import subprocess
import sys

VERIF = os.path.dirname(os.path.dirname(os.path.abspath(__file__)))
REVERT_MAP = {"5189dbe": "C08,C11", "cbd8c51": "C05", "ed316a4": "C06", "a8a9ba3": "C10", "740632c": "C14", "1e8e8f2": "C14", "94bbaa4": "C18",
              "b778d4f": "C18", "e4ab7f6": "C18,C19", "39bd59e": "C19", "6cdb13b": "C04,C11", "e724cdc": "C04,C11"}


def one(item):
    name, patch, checks = item
    p = subprocess.run([os.path.join(VERIF, "tools", "audit.py"), patch, checks], capture_output=True, text=True, cwd=VERIF)
    lines = p.stdout.strip().splitlines()
    caught = [ln for ln in lines if ln.startswith("CAUGHT")]
    detail = [ln[:160] for ln in lines if " rc=" in ln]
    return {"name": name, "checks": checks, "caught": bool(caught), "by": caught[0] if caught else "MISSED", "detail": detail}


def main():
    j = int(sys.argv[sys.argv.index("-j") + 1]) if "-j" in sys.argv else 2
    items = []
    for d in sorted(glob.glob(os.path.join(VERIF, "seeded", "C*-*"))):
        meta = json.load(open(os.path.join(d, "meta.json")))
        by = sorted({c.split(":")[0] for c in meta.get("caught_by", [])}) or [meta["property"]]
        if meta["property"] not in by:
            by.append(meta["property"])
        items.append((os.path.basename(d), os.path.join(d, "patch.diff"), ",".join(by)))
    for f in sorted(glob.glob(os.path.join(VERIF, "mutants", "revert-*.diff"))):
        key = os.path.basename(f).split("-")[1]
        items.append((os.path.basename(f)[:22], f, REVERT_MAP.get(key, "all")))
    out = []
    with cf.ThreadPoolExecutor(max_workers=j) as ex:
        for r in ex.map(one, items):
            out.append(r)
            print("| %s | %s | %s |" % (r["name"], r["checks"], r["by"]), flush=True)
    json.dump(out, open(os.path.join(VERIF, "seeded", "AUDIT.json"), "w"), indent=1)
    missed = [r["name"] for r in out if not r["caught"]]
    print("missed:", missed)


if __name__ == "__main__":
    main()
