#!/usr/bin/env python3
"""Rewrite section 7.5 of DESIGN.md (between the SEEDED-TABLE markers) from seeded/*/meta.json, mutants/ and the last
uniform re-audit seeded/AUDIT.json: which check catches which kept property-breaking change.

  tools/design_table.py          -> edits DESIGN.md in place
"""
import glob
import json
import os
import re

VERIF = os.path.dirname(os.path.dirname(os.path.abspath(__file__)))
BEGIN, END = "<!-- SEEDED-TABLE-BEGIN -->", "<!-- SEEDED-TABLE-END -->"


def key(d):
    b = os.path.basename(d)
    return (b.split("-")[0], int(b.split("-")[1]))


def main():
    audit = {}
    p = os.path.join(VERIF, "seeded", "AUDIT.json")
    if os.path.exists(p):
        audit = {r["name"]: r for r in json.load(open(p))}
    rows = []
    n = own = other = missed = 0
    for d in sorted(glob.glob(os.path.join(VERIF, "seeded", "C*-*")), key=key):
        m = json.load(open(os.path.join(d, "meta.json")))
        name = os.path.basename(d)
        title = ""
        nf = os.path.join(d, "notes.md")
        if os.path.exists(nf):
            lines = [ln.strip(" #*-`") for ln in open(nf).read().splitlines() if ln.strip()]
            title = re.sub(r"^(C\d\d )?(seed|change|Change|round \d,?|/ round \d /)[^a-zA-Z`]*", "", lines[0] if lines else "")
            title = re.sub(r"^(change|Change) \d+\s*(--|-|—|:)\s*", "", title)[:120].replace("|", "/")
        by = ", ".join(m.get("caught_by", [])) or "missed"
        a = audit.get(name)
        cur = a["by"].replace("CAUGHT by ", "").replace("'", "") if a else "-"
        hist = "yes" if m.get("strengthening_history") else ""
        rows.append("| %s | %s | %s | %s | %s | %s |" % (name, m["property"], title, by, hist, cur))
        n += 1
        prop = m["property"]
        cb = {c.split(":")[0] for c in m.get("caught_by", [])}
        if a:
            cb = set(re.findall(r"C\d\d", a["by"])) if a["caught"] else set()
        if prop in cb:
            own += 1
        elif cb:
            other += 1
        else:
            missed += 1
    mrows = []
    for f in sorted(glob.glob(os.path.join(VERIF, "mutants", "revert-*.diff"))):
        nm = os.path.basename(f)[:22]
        a = audit.get(nm)
        mrows.append("| %s | %s |" % (os.path.basename(f)[:-5], a["by"].replace("CAUGHT by ", "").replace("'", "") if a else "-"))
    out = [BEGIN, "",
           "%d independently written changes are kept under `seeded/` (rounds 1-7: two per property and round; round 8: two for each "
           "of eight properties; round 9: one for each of ten properties; each confirmed: demo passes on the clean tree, the patch applies, the repository's 192 tests still "
           "pass, the demo fails). With the current quick tiers: %d are caught by the check of the property they were written "
           "against, %d only by the check of another property that owns the broken statement (conventions of custom shell classes "
           "-> C09, stale state after parameter updates and aliasing of results -> C19, accuracy of the repulsion integrals -> C04, "
           "definitions for indefinite density matrices -> C06, the force/stress relation -> C15), %d are not reported by any check "
           "(the rows whose *caught by* column is empty): C07-13, whose deviation stays eighteen orders below the yardstick C07 is "
           "checked with, C04-15, which stays below C04's bound inside the exponent range C04 names, and any change of round 9 "
           "whose `meta.json` says so (`strengthening_history`)." % (n, own, other, missed), "",
           "Columns: *caught by* = tiers that reported a VIOLATION when the change was ingested (after strengthening, where the "
           "column *strengthened* says yes - the history is in the change's `meta.json`); *re-audit* = checks of the quick tier "
           "that report it in the last uniform re-audit with the final checks (`tools/audit_all.py`, `seeded/AUDIT.json`; `-` = "
           "ingested after that audit).", "",
           "| change | written against | mechanism | caught by (at ingestion) | strengthened | re-audit, quick tier |", "|---|---|---|---|---|---|"]
    out += rows
    out += ["", "Reverse patches of the repository's `fix:` commits (`mutants/`), quick tier:", "", "| reverse patch | caught by |", "|---|---|"] + mrows + ["", END]
    path = os.path.join(VERIF, "DESIGN.md")
    s = open(path).read()
    block = "\n".join(out)
    if BEGIN in s:
        s = s[: s.index(BEGIN)] + block + s[s.index(END) + len(END):]
    else:
        s = s.rstrip("\n") + "\n\n### 7.5 Which checks catch which changes\n\n" + block + "\n"
    open(path, "w").write(s)
    print("rows:", n, "own:", own, "other:", other, "missed:", missed)


if __name__ == "__main__":
    main()
