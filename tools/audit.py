#!/usr/bin/env python3
"""Mutation audit: apply a patch to a scratch worktree of /repo, run checks against it, remove the worktree.

  tools/audit.py <patch.diff> <C01[,C02,...]|all> [--tier quick] [--tests]   -> prints one line per check
Exit 0 when at least one listed check reports VIOLATION (rc 1).  Nothing is written under /repo; evidence of the
scratch tree goes to .work/.
"""
import os
import shutil
import subprocess
import sys
import tempfile

VERIF = os.path.dirname(os.path.dirname(os.path.abspath(__file__)))
ALL = ["C%02d" % i for i in range(1, 21)]


def main():
    args = [a for a in sys.argv[1:] if not a.startswith("--")]
    patch = os.path.abspath(args[0])
    checks = ALL if args[1] == "all" else args[1].split(",")
    tier = "quick"
    if "--tier" in sys.argv:
        tier = sys.argv[sys.argv.index("--tier") + 1]
    wt = tempfile.mkdtemp(prefix="gbasis-mut-", dir="/tmp")
    os.rmdir(wt)
    caught = []
    try:
        subprocess.run(["git", "-C", "/repo", "worktree", "add", "-q", "--detach", wt, "HEAD"], check=True)
        r = subprocess.run(["git", "-C", wt, "apply", patch], capture_output=True, text=True)
        if r.returncode != 0:
            r = subprocess.run(["git", "-C", wt, "apply", "--3way", patch], capture_output=True, text=True)
            subprocess.run(["git", "-C", wt, "reset", "-q"], capture_output=True)
        if r.returncode != 0 and os.environ.get("SEED_BASE", "6cdb13b"):
            # the patch was written against an older tree and conflicts with a later fix: audit that older tree
            subprocess.run(["git", "-C", wt, "checkout", "-q", "-f", "--detach", os.environ.get("SEED_BASE", "6cdb13b")], capture_output=True)
            r = subprocess.run(["git", "-C", wt, "apply", patch], capture_output=True, text=True)
            print("(applied to the older tree %s)" % os.environ.get("SEED_BASE", "6cdb13b"))
        if r.returncode != 0:
            print("PATCH DOES NOT APPLY: %s" % r.stderr.strip()[:300])
            return 3
        if "--tests" in sys.argv:
            t = subprocess.run(["/venv/bin/python", "-m", "pytest", "-q", "-p", "no:cacheprovider", "-x", "-n", "8", "tests"], cwd=wt, capture_output=True, text=True,
                               env={**os.environ, "PYTHONPATH": wt})
            print("tests: " + (t.stdout.strip().splitlines() or ["?"])[-1])
        for c in checks:
            p = subprocess.run([os.path.join(VERIF, "bin", "check"), c, "--tier", tier], capture_output=True, text=True, cwd=VERIF,
                               env={**os.environ, "VERIF_REPO": wt})
            lines = [ln for ln in p.stdout.splitlines() if ln.startswith(("VIOLATION", "INCONCLUSIVE", "KNOWN-FINDING"))]
            first = (lines[0] if lines else (p.stdout.strip().splitlines() or [""])[-1])[:230]
            print("%s rc=%d %s" % (c, p.returncode, first))
            if p.returncode == 1:
                caught.append(c)
    finally:
        subprocess.run(["git", "-C", "/repo", "worktree", "remove", "--force", wt], capture_output=True)
        shutil.rmtree(wt, ignore_errors=True)
        subprocess.run(["git", "-C", "/repo", "worktree", "prune"], capture_output=True)
    print("CAUGHT by %s" % caught if caught else "MISSED")
    return 0 if caught else 1


if __name__ == "__main__":
    sys.exit(main())
