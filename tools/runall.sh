#!/bin/sh
# tools/runall.sh quick|thorough [seed]  -- run every check, print one summary line each
TIER=${1:-quick}; SEED=${2:-0}
cd "$(dirname "$0")/.." && mkdir -p .work
for p in C01 C02 C03 C04 C05 C06 C07 C08 C09 C10 C11 C12 C13 C14 C15 C16 C17 C18 C19 C20; do
  s=$(date +%s)
  VERIF_SEED=$SEED ./bin/check $p --tier $TIER > .work/run-$p-$TIER-$SEED.log 2>&1; rc=$?
  e=$(date +%s)
  echo "$p tier=$TIER seed=$SEED rc=$rc wall=$((e-s))s $(grep -c '^KNOWN-FINDING' .work/run-$p-$TIER-$SEED.log) known; $(grep -E '^(VIOLATION|INCONCLUSIVE)' .work/run-$p-$TIER-$SEED.log | head -2 | cut -c1-200)"
done
