"""pytest plugin: run the repository's own (unedited) tests with the purity/FP-state/freshness monitors on.

  cd $VERIF_REPO && PYTHONPATH=/verif python -m pytest -p vmon.pytest_plugin tests
Firings are written, per test, to $VMON_PLUGIN_OUT.<pid>.json at session end.  A firing there is either a defect the
tests do not assert or an over-strict contract: the witness (test id, function, detail) is what gets read first.
"""
import json
import os

from vmon import env

env.bootstrap()
from vmon.monitors import install as mi  # noqa: E402

_REC = {"firings": [], "tests": 0}


def pytest_configure(config):
    mi.install()


def pytest_runtest_setup(item):
    mi.STATE.firings = []


def pytest_runtest_teardown(item, nextitem):
    _REC["tests"] += 1
    for f in mi.STATE.take_firings():
        f = dict(f)
        f["test"] = item.nodeid
        _REC["firings"].append(f)


def pytest_sessionfinish(session, exitstatus):
    out = os.environ.get("VMON_PLUGIN_OUT")
    if out:
        _REC["counts"] = mi.STATE.counts
        with open("%s.%d.json" % (out, os.getpid()), "w") as fh:
            json.dump(_REC, fh)
