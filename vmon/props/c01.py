"""C01 overlap exact, unit diagonal, asymmetric overlap = off-diagonal block of the union."""
import itertools

import numpy as np

from vmon.gen import bases
from vmon.props import common as cm
from vmon.ref import gto

ID = "C01"
OWNS = ("C01",)
TOL = 1e-8
RULE = (
    "bases of 1-4 shells whose first two shells enumerate every (l_a,l_b) in 0..5 x 0..5; 1-4 primitives, "
    "1-3 segmented contractions, exponents log-uniform in [0.02, cap(l)] with edge/equal/ratio-1e6 classes, "
    "geometry classes coincident/collinear/coplanar/axis-zero/near/far/general, every shell cartesian or "
    "spherical; overlap_integral and overlap_integral_asymmetric (every split position) are compared with the "
    "independent polynomial-moment reference in longdouble (bound 1e-8 absolute). distinct = distinct case "
    "descriptor digest; non-trivial = the reference matrix has an off-diagonal-block element > 1e-6 "
    "(single-shell cases: any off-diagonal element inside the shell block, or l>0)."
)
FLOOR = {"quick": 30, "thorough": 1000}
DECIDING = ["eval:overlap_integral", "eval:overlap_integral_asymmetric", "kernel:Overlap"]
REQUIRED_LINES = [
    ("gbasis/integrals/overlap.py", "return Overlap(basis).construct_array_mix(coord_type, **kwargs)"),
    ("gbasis/integrals/overlap.py", "return Overlap(basis).construct_array_spherical(**kwargs)"),
    ("gbasis/integrals/overlap.py", "return Overlap(basis).construct_array_cartesian(**kwargs)"),
]
ASSUMPTIONS = [
    "reference model vmon/ref/gto.py (explicit polynomial algebra + closed-form Gaussian moments in longdouble), "
    "validated by vmon/selftest.py against third-party HORTON arrays",
    "numpy/scipy/mpmath arithmetic; icontract decorators observe every call",
]


def gen_cases(tier, seed):
    reps = 5 if tier == "quick" else 360
    cases = []
    pairs = list(itertools.product(range(6), repeat=2))
    for rep in range(reps):
        for (la, lb) in pairs:
            rng = bases.rng_for("C01", seed, tier, rep, la, lb)
            nsh = int(rng.choice([2, 2, 3, 4])) if rep else 2
            if rep % 4 == 3 and la == lb:
                nsh = 1
            ls = [la, lb][:nsh] + [int(rng.integers(0, 4)) for _ in range(max(0, nsh - 2))]
            sym = bool(nsh >= 3 and lb <= 2 and rng.random() < 0.5)  # equivalent atoms around a centre (XH2, XH3)
            if sym:
                ls = [la, lb] + [lb] * (nsh - 2)
            shells, classes = bases.rand_basis(rng, ls, scale=1.2, symmetric=True if sym else None)
            if rep % 2 == 1 and nsh == 2:
                shells, classes = bases.window_pair(rng, la, lb)
            cases.append({"shells": shells, "classes": classes + ["l:%d,%d" % (la, lb), "nsh:%d" % nsh],
                          "cost": sum((2 + a) * (2 + b) * len(x["e"]) * len(y["e"]) for x, a in zip(shells, ls) for y, b in zip(shells, ls))})
    # displaced copies: nearly coincident centres, also far from the origin
    for k, (la, lb) in enumerate(itertools.product(range(4), repeat=2)):
        for rep in range(2 if tier == "quick" else 8):
            rng = bases.rng_for("C01", seed, tier, "displaced", la, lb, rep)
            shells, classes = bases.displaced_pair(rng, la, lb)
            cases.append({"shells": shells, "classes": classes + ["l:%d,%d" % (la, lb), "nsh:2"], "cost": 30})
    # screening-window sweep: high-l pairs at separations where exp(-mu R^2) runs through 1e-9 .. 1e-17
    for (la, lb) in itertools.product((4, 5) if tier == "quick" else (3, 4, 5), repeat=2):
        for t in range(20, 40, 2):
            rng = bases.rng_for("C01", seed, tier, "window", la, lb, t)
            shells, classes = bases.window_pair(rng, la, lb, tmin=t, tmax=t + 2)
            cases.append({"shells": shells, "classes": classes + ["l:%d,%d" % (la, lb), "nsh:2", "window-sweep"], "cost": 40})
    # tight functions far from the origin
    for k in range(6 if tier == "quick" else 48):
        rng = bases.rng_for("C01", seed, tier, "tight-far", k)
        la, lb = int(rng.integers(0, 4)), int(rng.integers(0, 4))
        shells, classes = bases.tight_far_pair(rng, la, lb)
        cases.append({"shells": shells, "classes": classes + ["l:%d,%d" % (la, lb), "nsh:2"], "cost": 30})
    # the largest bases the quantifier admits: four shells of high angular momentum with three segments each (150-250 functions)
    for k in range(1 if tier == "quick" else 6):
        rng = bases.rng_for("C01", seed, tier, "large", k)
        ls = [[5, 4, 5, 4], [4, 5, 3, 5], [5, 5, 4, 3]][k % 3]
        shells, classes = bases.rand_basis(rng, ls, Kmax=2, Mmax=3, scale=1.0, distinct_M=False, symmetric=False)
        for s_ in shells:
            while len(s_["k"][0]) < 3:
                s_["k"] = [row + [float(rng.normal()) + 0.3] for row in s_["k"]]
        cases.append({"shells": shells, "classes": classes + ["l:%d,%d" % (ls[0], ls[1]), "nsh:4", "large-basis:%d" % sum(bases.nfunc(s_) for s_ in shells)], "cost": 5000})
    # tight shells about one width apart
    for k in range(8 if tier == "quick" else 64):
        rng = bases.rng_for("C01", seed, tier, "tight-near", k)
        la, lb = int(rng.integers(0, 3)), int(rng.integers(0, 3))
        shells, classes = bases.tight_near_pair(rng, la, lb)
        cases.append({"shells": shells, "classes": classes + ["l:%d,%d" % (la, lb), "nsh:2"], "cost": 30})
    cases += bases.dup_variants("C01", seed, tier, cases, 9)  # one shell listed twice as the same object
    cases += bases.argrep_variants("C01", seed, tier, cases, 7, ok=lambda c: "shells" in c and c.get("kind") in (None, "whole", "kernel", "perm", "real"))  # constructor arguments in other in-memory representations
    return cases


def run_case(case):
    from gbasis.integrals.overlap import overlap_integral
    from gbasis.integrals.overlap_asymm import overlap_integral_asymmetric

    shells = case["shells"]
    viols, errs = [], {}
    evals = 0
    rs = cm.rshells(shells)
    ref = gto.overlap(rs)
    offs = gto.offsets(rs)
    basis = cm.build(shells)
    S = cm.call(overlap_integral, basis)
    cm.compare(S, ref, TOL, "overlap_integral", "overlap", viols, errs, ls=cm.ls_of(shells))
    evals += 1
    if isinstance(S, np.ndarray) and S.shape == ref.shape:
        d = float(np.abs(np.diag(S) - 1).max())
        errs["diag"] = d
        evals += 1
        if not d <= TOL:
            viols.append(cm.viol("diagonal of the overlap deviates from 1 by %.3e" % d, "diag", d, TOL))
    # asymmetric = off-diagonal block of the union, for every split
    n = len(shells)
    for k in range(1, n):
        b1, b2 = cm.build(shells[:k]), cm.build(shells[k:])
        A = cm.call(overlap_integral_asymmetric, b1, b2)
        evals += 1
        cm.compare(A, ref[: offs[k], offs[k]:], TOL, "overlap_integral_asymmetric(split %d)" % k, "asym", viols, errs)
        if isinstance(S, np.ndarray) and isinstance(A, np.ndarray) and S.shape == ref.shape and A.shape == ref[: offs[k], offs[k]:].shape:
            e, at = cm.maxerr(A, S[: offs[k], offs[k]:])
            errs["asym_vs_union"] = max(errs.get("asym_vs_union", 0), e)
            evals += 1
            if not e <= TOL:
                viols.append(cm.viol("asymmetric overlap differs from the union's off-diagonal block by %.3e" % e, "asym_vs_union", e, TOL))
    if n == 1 or case.get("self_asym"):
        A = cm.call(overlap_integral_asymmetric, cm.build(shells), cm.build(shells))
        evals += 1
        cm.compare(A, ref, TOL, "overlap_integral_asymmetric(basis, basis)", "asym", viols, errs)
    # kernel level: Overlap.construct_array_contraction in both orientations of the first shell pair, against the
    # reference block of the normalised Cartesian functions (the model's own contraction norms are applied)
    from gbasis.integrals.overlap import Overlap

    sa, sb = rs[0], rs[min(1, n - 1)]
    ga, gb = cm.build([shells[0], shells[min(1, n - 1)]])
    for (x, y, gx, gy, tag) in ((sa, sb, ga, gb, "(a,b)"), (sb, sa, gb, ga, "(b,a)")):
        blk = cm.call(Overlap.construct_array_contraction, gx, gy)
        evals += 1
        want = np.asarray(gto.overlap_block(x, y), dtype=float)
        if isinstance(blk, cm.Raised):
            viols.append(cm.unexpected(blk, "Overlap.construct_array_contraction" + tag))
            continue
        sv = cm.shape_violation(blk, (x.M, x.ncart, y.M, y.ncart), "Overlap.construct_array_contraction" + tag)
        if sv:
            viols.append(sv)
            continue
        got = (np.asarray(blk) * x.cont_norm[:, :, None, None] * y.cont_norm[None, None, :, :]).reshape(want.shape)
        e = float(np.abs(got - want).max())
        errs["kernel"] = max(errs.get("kernel", 0.0), e)
        if not e <= TOL:
            viols.append(cm.viol("Overlap.construct_array_contraction%s deviates from the reference block by %.3e" % (tag, e), "kernel", e, TOL, ls=[x.l, y.l]))
    # non-triviality
    if n == 1:
        nontrivial = shells[0]["l"] > 0 or len(shells[0]["k"][0]) > 1
    else:
        m = 0.0
        for i in range(n):
            for j in range(i + 1, n):
                m = max(m, float(np.abs(ref[offs[i]:offs[i + 1], offs[j]:offs[j + 1]]).max()))
        nontrivial = m > 1e-6
    return {"evals": evals, "nontrivial": bool(nontrivial), "classes": case.get("classes", []), "errs": errs, "violations": viols}


def summarize(cases, results, counts, lists, tier):
    pairs = set()
    for c in cases:
        for x in c.get("classes", []):
            if x.startswith("l:"):
                pairs.add(x)
    return {"enumerated": {"(l_a,l_b) pairs 0..5": "%d of 36" % len(pairs)}, "bound": "1e-8 absolute"}
