"""C13 contractions behave as the linear combinations they denote."""
import itertools

import numpy as np

from vmon.gen import bases
from vmon.props import common as cm

ID = "C13"
OWNS = ("C13",)
TOL = 1e-9
RULE = (
    "bases of 1-3 shells (l 0..4; ERI cases l<=2), 1-4 primitives, 1-4 coefficient columns; every public integral and "
    "evaluation function is observed on the basis and on rewritten-but-equivalent bases: (a) a generalized shell replaced "
    "by its M single-column shells (same functions, same order), (b) every permutation of the primitives (all for K<=4), "
    "(c) one primitive split into two with coefficient shares s, 1-s, (d) one column scaled by f in +-{1e-6..1e6} "
    "(positive: unchanged, negative: that function's sign flips on every index it occupies), (e) un-normalised kernel "
    "blocks linear in the coefficient matrix. Bound 1e-9 of the array maximum (ERI 2e-6 of the Schwarz scale from the "
    "observed diagonal). non-trivial = a shell with K>=2 and M>=2."
)
FLOOR = {"quick": 30, "thorough": 120}
DECIDING = ["eval:overlap_integral", "eval:evaluate_deriv_basis", "eval:electron_repulsion_integral", "kernel:Overlap", "kernel:ElectronRepulsionIntegral"]
ASSUMPTIONS = ["equivalences are mathematical identities of contracted Gaussians; only rounding differs"]
SCALES = [1e-6, 1e-4, 1e-2, 0.5, 3.0, 1e2, 1e4, 1e6]


def gen_cases(tier, seed):
    n = 64 if tier == "quick" else 768
    cases = []
    for i in range(n):
        rng = bases.rng_for("C13", seed, tier, i)
        eri = i % 4 == 2
        nsh = int(rng.integers(1, 4)) if not eri else int(rng.integers(1, 3))
        lmax = 2 if eri else 4
        ls = [int(x) for x in rng.integers(0, lmax + 1, size=nsh)]
        pats = bases.type_patterns(nsh)
        tp = list(pats[(i // 2) % len(pats)])
        # ERI cases use a narrow exponent range: the equivalences are exact identities, and the accuracy of the two
        # evaluations (C04's subject, including its recursion-amplification finding for shells spanning 0.1..10)
        # must not leak into this comparison
        lo, hi = (0.3, 3.0) if eri else (0.05, 200.0)
        shells = []
        centers, gcls = bases.rand_centers(rng, nsh, None, scale=1.0)
        for k, (l, t) in enumerate(zip(ls, tp)):
            K = int(rng.integers(2, 5)) if k == 0 else int(rng.integers(1, 5))
            M = int(rng.integers(2, 5)) if k == 0 else int(rng.integers(1, 5))
            if eri:
                K, M = min(K, 3), min(M, 2)
            s = bases.rand_shell(rng, l, K=K, M=M, t=t, center=centers[k], emin=lo, emax=min(hi, bases.cap(l)))
            s.pop("_cls")
            shells.append(s)
        f = float(SCALES[i % len(SCALES)] * (1 if (i // len(SCALES)) % 2 == 0 else -1))
        if nsh >= 2 and i % 3 == 1:
            # a single-primitive shell with columns of both signs (the simplest contraction there is)
            shells[1]["e"] = shells[1]["e"][:1]
            m1 = len(shells[1]["k"][0])
            shells[1]["k"] = [[float((-1) ** m * (0.5 + m)) for m in range(m1)]]
        cases.append({"shells": shells, "eri": eri, "seed": [seed, i], "factor": f, "share": float(rng.uniform(-0.5, 1.5)), "target": (1 if i % 3 == 1 else 0),
                      "classes": [gcls, "factor:%g" % f, "types:" + "".join(tp)] + (["with-eri"] if eri else []),
                      "cost": 60 + (sum(bases.nfunc(s, "c") for s in shells) ** 4 / 20 if eri else 0)})
    cases += bases.argrep_variants("C13", seed, tier, cases, 8, ok=lambda c: "shells" in c and c.get("kind") in (None, "whole", "kernel", "perm", "real"))  # constructor arguments in other in-memory representations
    return cases


def functions(eri):
    from gbasis.evals.eval import evaluate_basis
    from gbasis.evals.eval_deriv import evaluate_deriv_basis
    from gbasis.integrals.angular_momentum import angular_momentum_integral
    from gbasis.integrals.electron_repulsion import electron_repulsion_integral
    from gbasis.integrals.kinetic_energy import kinetic_energy_integral
    from gbasis.integrals.moment import moment_integral
    from gbasis.integrals.momentum import momentum_integral
    from gbasis.integrals.overlap import overlap_integral
    from gbasis.integrals.point_charge import point_charge_integral

    pts = np.array([[0.1, 0.2, 0.3], [-0.4, 0.5, 0.0], [0.0, 0.0, 0.0]])
    q = np.array([1.0, -2.0, 0.5])
    F = [
        ("overlap_integral", lambda b: overlap_integral(b), 2),
        ("overlap_integral(tol_screen=1e-6)", lambda b: overlap_integral(b, tol_screen=1e-6), 2),
        ("kinetic_energy_integral", lambda b: kinetic_energy_integral(b), 2),
        ("point_charge_integral", lambda b: point_charge_integral(b, pts, q), 2),
        ("moment_integral", lambda b: moment_integral(b, np.array([0.2, -0.1, 0.4]), np.array([[1, 0, 0], [0, 2, 1]])), 2),
        ("momentum_integral", lambda b: momentum_integral(b), 2),
        ("angular_momentum_integral", lambda b: angular_momentum_integral(b), 2),
        ("evaluate_basis", lambda b: evaluate_basis(b, pts), 1),
        ("evaluate_deriv_basis(general)", lambda b: evaluate_deriv_basis(b, pts, np.array([1, 2, 0])), 1),
        ("evaluate_deriv_basis(direct)", lambda b: evaluate_deriv_basis(b, pts, np.array([2, 0, 1]), deriv_type="direct"), 1),
    ]
    if eri:
        F.append(("electron_repulsion_integral", lambda b: electron_repulsion_integral(b, notation="chemist"), 4))
    return F


def run_case(case):
    shells = case["shells"]
    rng = bases.rng_for("C13run", *case["seed"])
    viols, errs = [], {}
    evals = 0
    F = functions(case["eri"])
    base = {}
    for name, fn, nidx in F:
        base[name] = cm.call(fn, cm.build(shells))
        if isinstance(base[name], cm.Raised):
            viols.append(cm.unexpected(base[name], name))
    if viols:
        return {"evals": len(F), "nontrivial": True, "classes": case["classes"], "errs": errs, "violations": viols}

    # natural magnitudes (arrays that vanish by symmetry, e.g. the momentum matrix of a single centre, are pure rounding noise)
    tmax = float(np.abs(np.diag(base["kinetic_energy_integral"])).max())
    rmax = 1.0 + max(float(np.abs(np.array(s_["c"])).max()) for s_ in shells)
    floors = {"momentum_integral": np.sqrt(2 * tmax), "angular_momentum_integral": np.sqrt(2 * tmax) * rmax, "overlap_integral": 1.0, "overlap_integral(tol_screen=1e-6)": 1.0,
              "kinetic_energy_integral": tmax}

    def cmp(name, nidx, out, want, what, qty):
        nonlocal evals
        evals += 1
        if isinstance(out, cm.Raised):
            viols.append(cm.unexpected(out, "%s on %s" % (name, what)))
            return
        if out.shape != want.shape:
            viols.append(cm.viol("%s on %s: shape %s vs %s" % (name, what, out.shape, want.shape), qty + "_shape"))
            return
        if nidx == 4:
            n = want.shape[0]
            dg = np.sqrt(np.abs(want.reshape(n * n, n * n).diagonal()).reshape(n, n))
            sc = dg[:, :, None, None] * dg[None, None, :, :]
            sc = sc + 1e-9 * sc.max() + 1e-300
            e = float((np.abs(out - want) / sc).max())
            tol = 2e-6
        else:
            e = float(np.abs(out - want).max()) / (max(float(np.abs(want).max()), floors.get(name, 0.0)) + 1e-300)
            tol = TOL
        errs[qty] = max(errs.get(qty, 0.0), e)
        if not e <= tol:
            viols.append(cm.viol("%s changes by %.3e when the basis is rewritten as %s" % (name, e, what), qty, e, tol, function=name))

    def rewrite_all(rewriter, what, qty, signs=None):
        new = rewriter()
        for name, fn, nidx in F:
            want = base[name]
            if signs is not None:
                want = want.copy()
                for ax in range(nidx):
                    shp = [1] * want.ndim
                    shp[ax] = -1
                    want = want * signs.reshape(shp)
            cmp(name, nidx, cm.call(fn, cm.build(new)), want, what, qty)

    # the shell that gets rewritten: shell 0 (always K >= 2, M >= 2) or, in every third case, another shell of the
    # basis (which may have a single primitive and/or negative coefficients); it is rotated to the front so that
    # the function-index bookkeeping below stays simple
    tgt = case.get("target", 0) % len(shells)
    if tgt:
        shells = [shells[tgt]] + shells[:tgt] + shells[tgt + 1:]
        base = {}
        for name, fn, nidx in F:
            base[name] = cm.call(fn, cm.build(shells))
            if isinstance(base[name], cm.Raised):
                viols.append(cm.unexpected(base[name], name))
        if viols:
            return {"evals": len(F), "nontrivial": True, "classes": case["classes"], "errs": errs, "violations": viols}
    s0 = shells[0]
    K, M = len(s0["e"]), len(s0["k"][0])
    # (a) generalized shell -> M single-column shells
    def split_columns():
        out = []
        for s in shells:
            for m in range(len(s["k"][0])):
                out.append(dict(s, k=[[row[m]] for row in s["k"]]))
        return out

    rewrite_all(split_columns, "single-column shells sharing the primitives", "split_columns")
    # (b) every permutation of the primitives of shell 0 (all for K <= 4)
    perms = list(itertools.permutations(range(K)))
    if len(perms) > 6 and case.get("tier") != "thorough":
        idx = rng.permutation(len(perms))[:6]
        perms = [perms[int(i)] for i in idx]
    for perm in perms:
        if list(perm) == list(range(K)):
            continue

        def permuted(perm=perm):
            return [dict(s0, e=[s0["e"][p] for p in perm], k=[s0["k"][p] for p in perm])] + shells[1:]

        rewrite_all(permuted, "primitives listed in order %s" % (list(perm),), "permute_primitives")
    # (b') the same re-listing done IN PLACE through the public setters of a shell that has already been used (no
    # renormalisation asked for: the normalisation constants are invariant under the re-listing, so none is needed)
    if K >= 2:
        perm = [int(p) for p in np.roll(np.arange(K), 1)] if case.get("tier") != "thorough" else [int(p) for p in rng.permutation(K)]
        if perm != list(range(K)):
            live = list(cm.build(shells))
            for name, fn, nidx in F[:2]:
                cm.call(fn, live)
            try:
                e_old, k_old = np.array(live[0].exps), np.array(live[0].coeffs)
                live[0].exps = e_old[perm]
                live[0].coeffs = k_old[perm]
                done = True
            except Exception as exc:  # a shell that refuses the update is not judged here (C19 owns rejected updates)
                done = False
            if done:
                for name, fn, nidx in F:
                    cmp(name, nidx, cm.call(fn, live), base[name], "the same shell objects after shell 0's primitives were re-listed in place in order %s" % (perm,), "permute_in_place")
    # (c) split one primitive into two with shares s, 1-s
    kk = int(rng.integers(K))
    sh = case["share"]

    def split_prim():
        e = list(s0["e"]) + [s0["e"][kk]]
        k = [list(r) for r in s0["k"]] + [[(1 - sh) * v for v in s0["k"][kk]]]
        k[kk] = [sh * v for v in s0["k"][kk]]
        return [dict(s0, e=e, k=k)] + shells[1:]

    rewrite_all(split_prim, "primitive %d split with shares %.3f / %.3f" % (kk, sh, 1 - sh), "split_primitive")
    # (d) scale one column
    f = case["factor"]
    m0 = int(rng.integers(M))

    def scaled():
        return [dict(s0, k=[[v * (f if m == m0 else 1.0) for m, v in enumerate(r)] for r in s0["k"]])] + shells[1:]

    ntot = sum(bases.nfunc(s) for s in shells)
    per = bases.nfunc(s0) // M
    signs = np.ones(ntot)
    if f < 0:
        signs[m0 * per:(m0 + 1) * per] = -1.0
    rewrite_all(scaled, "column %d multiplied by %g" % (m0, f), "scale_column", signs=signs)
    # (d') every column of the shell scaled by the same factor (the whole coefficient matrix becomes tiny or huge)
    def scaled_all():
        return [dict(s0, k=[[v * f for v in r] for r in s0["k"]])] + shells[1:]

    signs_all = np.ones(ntot)
    if f < 0:
        signs_all[: bases.nfunc(s0)] = -1.0
    rewrite_all(scaled_all, "every column of shell 0 multiplied by %g" % f, "scale_all_columns", signs=signs_all)
    # (d'') a shell with one weakly contributing primitive (coefficients 1e-3 of the others), written with all its
    # coefficients multiplied by 1e-6 / 1e+6: same functions (every column is renormalised)
    weak = [dict(s0, k=[[v * (1e-3 if i == kk else 1.0) for v in r] for i, r in enumerate(s0["k"])])] + shells[1:]
    for fac in (1e-6, 1e6):
        tiny = [dict(weak[0], k=[[v * fac for v in r] for r in weak[0]["k"]])] + shells[1:]
        for name, fn, nidx in F:
            want = cm.call(fn, cm.build(weak))
            if isinstance(want, cm.Raised):
                viols.append(cm.unexpected(want, name))
                continue
            cmp(name, nidx, cm.call(fn, cm.build(tiny)), want, "a shell with a weak primitive, all coefficients multiplied by %g" % fac, "scale_weak_shell")
    # (e) un-normalised kernel blocks linear in the coefficients
    from gbasis.contractions import GeneralizedContractionShell as G
    from gbasis.integrals.electron_repulsion import ElectronRepulsionIntegral
    from gbasis.integrals.kinetic_energy import KineticEnergyIntegral
    from gbasis.integrals.overlap import Overlap
    from gbasis.integrals.point_charge import PointChargeIntegral

    c1 = np.array(s0["k"], dtype=float)
    c2 = rng.normal(size=c1.shape)
    lam = float(rng.normal() * 2)
    other = cm.build(shells)[-1]

    def mk(c):
        return G(int(s0["l"]), np.array(s0["c"], float), np.array(c, float), np.array(s0["e"], float), "cartesian")

    kernels = [("Overlap", lambda a, b: Overlap.construct_array_contraction(a, b)), ("KineticEnergyIntegral", lambda a, b: KineticEnergyIntegral.construct_array_contraction(a, b)),
               ("PointChargeIntegral", lambda a, b: PointChargeIntegral.construct_array_contraction(a, b, np.array([[0.1, 0.2, 0.3]]), np.array([1.5])))]
    if case["eri"]:
        kernels.append(("ElectronRepulsionIntegral", lambda a, b: ElectronRepulsionIntegral.construct_array_contraction(a, b, b, a)))
    for kn, kf in kernels:
        x1, x2, x12 = cm.call(kf, mk(c1), other), cm.call(kf, mk(c2), other), cm.call(kf, mk(c1 + lam * c2), other)
        evals += 1
        if any(isinstance(x, cm.Raised) for x in (x1, x2, x12)):
            viols.append(cm.unexpected([x for x in (x1, x2, x12) if isinstance(x, cm.Raised)][0], kn + " kernel"))
            continue
        if kn == "ElectronRepulsionIntegral":
            continue  # bilinear in the coefficients of shell a (it occupies two slots); checked through (d) instead
        want = x1 + lam * x2
        mag = np.abs(x1) + abs(lam) * np.abs(x2)
        e = float(np.abs(x12 - want).max()) / (float(mag.max()) + 1e-300)
        errs["kernel_linear"] = max(errs.get("kernel_linear", 0.0), e)
        if not e <= TOL:
            viols.append(cm.viol("%s kernel block is not linear in the coefficient matrix (%.3e)" % (kn, e), "kernel_linear", e, TOL))
    nontrivial = K >= 2 and M >= 2
    return {"evals": evals, "nontrivial": bool(nontrivial), "classes": case["classes"], "errs": errs, "violations": viols}


def summarize(cases, results, counts, lists, tier):
    return {"scale_factors": sorted({c["factor"] for c in cases}), "bound": "1e-9 of the array maximum; ERI 2e-6 of the observed Schwarz scale"}
