"""C11 index symmetries; reordering shells only reorders indices; both orientations of shell blocks agree."""
import itertools

import numpy as np

from vmon.gen import bases
from vmon.props import common as cm
from vmon.props import c04

ID = "C11"
OWNS = ("C11",)
RULE = (
    "(perm) bases of 2-5 shells of differing angular momentum (0..4), segment count and coordinate type: every public "
    "integral/evaluation function is observed on the basis and on EVERY permutation of its shells (all 2/6/24 for 2-4 "
    "shells, 12 sampled for 5) and the permuted-basis array must equal the original with the block permutation applied "
    "to every basis index; real symmetric operators symmetric, momentum-type Hermitian, ERI eight-fold symmetric. "
    "(orient) shell-level kernels construct_array_contraction are observed in both orientations of a pair (block(a,b) "
    "vs block(b,a)^T resp. ^H) and in all eight orientations of a quartet, including the tight/diffuse quartets of "
    "C04's ill-conditioned list. Bounds: 2x the accuracy bound of the class with scales taken from the observed arrays "
    "(overlap 2e-8 absolute, kinetic/point-charge 2e-8 sqrt|D_aa D_bb|, moments 2e-8 Cauchy-Schwarz scale from observed "
    "doubled-order moments, momentum-type 2e-9 of sqrt(|grad a||grad b|) resp. with |r a|, ERI 2e-6 of the Schwarz "
    "scale from the observed diagonal). non-trivial = at least two shells with different (l, M, type) / a quartet with "
    "total L >= 1."
)
FLOOR = {"quick": 30, "thorough": 120}
DECIDING = ["eval:overlap_integral", "eval:momentum_integral", "eval:electron_repulsion_integral", "kernel:ElectronRepulsionIntegral",
            "kernel:Overlap", "kernel:PointChargeIntegral", "kernel:AngularMomentumIntegral"]
ASSUMPTIONS = ["scales (diagonals, doubled-order moments) are taken from the observed gbasis arrays; their correctness is C01-C08's subject"]


def gen_cases(tier, seed):
    cases = []
    n = 48 if tier == "quick" else 600
    for i in range(n):
        rng = bases.rng_for("C11", seed, tier, "perm", i)
        nsh = 2 + i % 4
        eri = i % 4 == 1  # 3 shells, small
        lmax = 1 if eri else 4
        ls = [int(x) for x in rng.permutation(lmax + 1)[:nsh]] if nsh <= lmax + 1 else [int(x) for x in rng.integers(0, lmax + 1, size=nsh)]
        pats = bases.type_patterns(nsh)
        tp = list(pats[(i * 7 + 3) % len(pats)])
        shells, classes = bases.rand_basis(rng, ls, types=tp, emin=0.05, emax_fn=lambda l: min(bases.cap(l), 300.0), Kmax=3, Mmax=3, scale=1.2,
                                           geom=str(rng.choice(["general", "collinear", "coplanar", "axis-zero", "coincident"])))
        cases.append({"kind": "perm", "shells": shells, "eri": eri, "seed": [seed, i], "classes": classes + ["perm", "nsh:%d" % nsh, "types:" + "".join(tp)] + (["with-eri"] if eri else []),
                      "cost": (24 if nsh >= 4 else 6) * nsh * nsh * (4 if eri else 1)})
    # kernel orientations: pairs
    m = 40 if tier == "quick" else 600
    for i in range(m):
        rng = bases.rng_for("C11", seed, tier, "pair", i)
        ls = [int(rng.integers(0, 5)), int(rng.integers(0, 5))]
        shells, classes = bases.rand_basis(rng, ls, types=["c", "c"], emin=0.02, emax_fn=bases.cap, Kmax=3, Mmax=3, scale=1.0)
        cases.append({"kind": "pair", "shells": shells, "classes": classes + ["pair", "ls:%d%d" % tuple(ls)], "cost": 30})
    # kernel orientations: quartets (random + ill-conditioned list)
    mq = 32 if tier == "quick" else 400
    for i in range(mq):
        rng = bases.rng_for("C11", seed, tier, "quartet", i)
        ls = [int(x) for x in rng.integers(0, 4, size=4)]
        while sum(ls) > 8:
            ls[int(np.argmax(ls))] -= 1
        lo, hi = (0.2, 5.0) if 3 in ls else (0.1, 10.0)
        shells, classes = bases.rand_basis(rng, ls, types=["c"] * 4, emin=lo, emax_fn=lambda l: hi, Kmax=2, Mmax=2, scale=0.9,
                                           geom=str(rng.choice(["general", "coincident", "collinear", "near"])))
        cost = 8.0
        for s in shells:
            cost *= len(s["e"]) * (s["l"] + 1) * (s["l"] + 2) / 2 * len(s["k"][0])
        cases.append({"kind": "quartet", "shells": shells, "classes": classes + ["quartet", "ls:%d%d%d%d" % tuple(ls)], "cost": cost / 20})
    for i in range(10 if tier == "quick" else 60):
        rng = bases.rng_for("C11", seed, tier, "displaced", i)
        la, lb, lc, ld = (int(x) for x in rng.integers(0, 3, size=4))
        p1, c1 = bases.displaced_pair(rng, la, lb, emax=10.0)
        p2, c2 = bases.displaced_pair(rng, lc, ld, emax=10.0)
        off = np.array(p1[0]["c"]) - np.array(p2[0]["c"]) + rng.normal(size=3) * 0.8
        for s_ in p2:
            s_["c"] = [float(v) for v in np.array(s_["c"]) + off]
        shells = [dict(s_, t="c") for s_ in (p1 + p2)]
        cases.append({"kind": "quartet", "shells": shells, "classes": sorted(set(c1 + c2)) + ["quartet"], "cost": 200})
        cases.append({"kind": "pair", "shells": [dict(s_, t="c") for s_ in p1], "classes": c1 + ["pair"], "cost": 30})
    for i in range(6 if tier == "quick" else 30):
        rng = bases.rng_for("C11", seed, tier, "longK", i)
        K = int(rng.choice([17, 20, 31, 33]))
        ls = [int(x) for x in rng.integers(0, 3, size=4)]
        if sum(ls) == 0:
            ls[2] = 1
        centers, gcls = bases.rand_centers(rng, 4, None, scale=0.9)
        shells = []
        for j, (l, c) in enumerate(zip(ls, centers)):
            if j == i % 4:
                e = [float(x) for x in np.exp(np.linspace(np.log(0.15), np.log(8.0), K))]
                shells.append({"l": l, "c": c, "e": e, "k": bases.rand_coeffs(rng, l, e, 1), "t": "c"})
            else:
                s_ = bases.rand_shell(rng, l, K=1, M=1, t="c", center=c, emin=0.3, emax=4.0)
                s_.pop("_cls")
                shells.append(s_)
        cases.append({"kind": "quartet", "shells": shells, "classes": [gcls, "quartet", "longK:%d" % K], "cost": 80 * K})
    rng = bases.rng_for("C11", "ill")
    cen = [[0.0, 0.0, 0.0], [0.9, 0.3, -0.4]]
    for name, bra, ket in c04.ILL:
        t = [c04._mk(l, e, rng, cen[0]) for l, e in bra]
        d = [c04._mk(l, e, rng, cen[1]) for l, e in ket]
        for arr_name, order in (("(tt|dd)", [t[0], t[1], d[0], d[1]]), ("(td|td)", [t[0], d[0], t[1], d[1]])):
            cases.append({"kind": "quartet", "shells": [dict(s) for s in order], "classes": ["quartet", "ill:" + name, "arr:" + arr_name], "cost": 800})
        if name in ("ss|dd 1e5/0.1", "ss|ff 1e3/0.2", "pp|dd 1e4/0.1", "ss|dd contracted core"):
            cases.append({"kind": "quartet", "shells": [dict(s, c=list(cen[0])) for s in (t[0], t[1], d[0], d[1])], "classes": ["quartet", "ill:" + name, "arr:(tt|dd)", "one-centre"], "cost": 800})
        if any(len(s_["e"]) > 1 for s_ in t + d):
            cases.append({"kind": "quartet", "shells": [c04._rev(s) for s in (t[0], t[1], d[0], d[1])], "classes": ["quartet", "ill:" + name, "arr:(tt|dd)", "primitives-reversed"], "cost": 800})
    rng = bases.rng_for("C11", "ill4")
    for name, bra, ket, cen4 in c04.ILL4 + c04.ILL4_SYMMETRY:
        t = [c04._mk(l, e, rng, c_) for (l, e), c_ in zip(bra, cen4[:2])]
        d = [c04._mk(l, e, rng, c_) for (l, e), c_ in zip(ket, cen4[2:])]
        for arr_name, order in (("(td|dt)", [t[0], d[0], d[1], t[1]]), ("(td'|dt')", [t[1], d[0], d[1], t[0]]), ("(tt|dd)", [t[0], t[1], d[0], d[1]])):
            cases.append({"kind": "quartet", "shells": [dict(s) for s in order], "classes": ["quartet", "ill:" + name, "arr:" + arr_name], "cost": 3000})
        cases.append({"kind": "quartet", "shells": [c04._rev(s) for s in (t[0], t[1], d[0], d[1])], "classes": ["quartet", "ill:" + name, "arr:(tt|dd)", "primitives-reversed"], "cost": 3000})
    cases += bases.dup_variants("C11", seed, tier, [c for c in cases if c["kind"] == "perm"], 5)  # one shell listed twice as the same object
    cases += bases.argrep_variants("C11", seed, tier, cases, 7, ok=lambda c: "shells" in c and c.get("kind") in (None, "whole", "kernel", "perm", "real"))  # constructor arguments in other in-memory representations
    return cases


def block_perm(nfs, perm):
    offs = np.cumsum([0] + nfs)
    return np.concatenate([np.arange(offs[p], offs[p + 1]) for p in perm])


def take(arr, idx, axes):
    for ax in axes:
        arr = np.take(arr, idx, axis=ax)
    return arr


def far_split(err, scale, tol, what, qty, viols, errs, extra):
    """judge err <= tol*scale elementwise; far-field elements (scale < 1e-9 max) reported under qty_farfield"""
    smax = float(scale.max()) if scale.size else 0.0
    # C11 states no tolerance: 2x the accuracy bound of C04 relative to the Schwarz scale, plus a double-precision
    # absolute floor (1e-15 of the natural scale) so that elements in the denormal range (Schwarz factor underflowed
    # to 0, values ~1e-280) are not judged on their rounding noise
    scale = scale + (1e-15 / tol) * max(smax, 1e-2)
    rel = err / (scale + 1e-300)
    near = scale >= c04.FAR * smax
    for mask, q in ((near, qty), (~near, qty + "_farfield")):
        if not mask.any():
            continue
        r = np.where(mask, rel, 0.0)
        at = np.unravel_index(int(np.argmax(r)), r.shape)
        e = float(r[at])
        errs[q] = max(errs.get(q, 0.0), min(e, 1e300))
        if not e <= tol:
            viols.append(cm.viol("%s: difference %.3e of the Schwarz scale (bound %.0e) at %s" % (what, min(e, 1e300), tol, tuple(int(x) for x in at)), q, min(e, 1e300), tol,
                                 abs_err=float(err[at]), schwarz=float(scale[at]), schwarz_max=smax, **extra))


def run_case(case):
    from gbasis.evals.eval import evaluate_basis
    from gbasis.evals.eval_deriv import evaluate_deriv_basis
    from gbasis.integrals.angular_momentum import AngularMomentumIntegral, angular_momentum_integral
    from gbasis.integrals.electron_repulsion import ElectronRepulsionIntegral, electron_repulsion_integral
    from gbasis.integrals.kinetic_energy import KineticEnergyIntegral, kinetic_energy_integral
    from gbasis.integrals.moment import Moment, moment_integral
    from gbasis.integrals.momentum import MomentumIntegral, momentum_integral
    from gbasis.integrals.nuclear_electron_attraction import nuclear_electron_attraction_integral
    from gbasis.integrals.overlap import Overlap, overlap_integral
    from gbasis.integrals.point_charge import PointChargeIntegral, point_charge_integral

    shells = case["shells"]
    viols, errs = [], {}
    evals = 0
    kind = case["kind"]
    pts = np.array([[0.3, -0.2, 0.5], [0.0, 0.0, 0.0], [-1.0, 0.4, 0.2]]) + np.array(shells[0]["c"])
    q = np.array([1.0, -3.0, 0.7])
    origin = np.array([0.2, 0.1, -0.3])
    mord = np.array([[1, 0, 0], [0, 1, 1], [2, 0, 1]])

    def cmp(a, b, scale, tol, what, qty, **kw):
        nonlocal evals
        evals += 1
        if isinstance(a, cm.Raised) or isinstance(b, cm.Raised):
            viols.append(cm.unexpected(a if isinstance(a, cm.Raised) else b, what))
            return
        if a.shape != b.shape:
            viols.append(cm.viol("%s: shapes %s vs %s" % (what, a.shape, b.shape), qty + "_shape"))
            return
        e, at = cm.maxerr(a, b, scale)
        errs[qty] = max(errs.get(qty, 0.0), e)
        if not e <= tol:
            viols.append(cm.viol("%s: difference %.3e of the scale (bound %.0e) at %s" % (what, e, tol, at), qty, e, tol, **kw))

    if kind == "perm":
        n = len(shells)
        nfs = [bases.nfunc(s) for s in shells]
        base = cm.build(shells)
        S0 = cm.call(overlap_integral, base)
        T0 = cm.call(kinetic_energy_integral, cm.build(shells))
        V0 = cm.call(point_charge_integral, cm.build(shells), pts, q)
        N0 = cm.call(nuclear_electron_attraction_integral, cm.build(shells), pts, np.abs(q))
        M0 = cm.call(moment_integral, cm.build(shells), origin, mord)
        M2 = cm.call(moment_integral, cm.build(shells), origin, 2 * mord)
        R2 = cm.call(moment_integral, cm.build(shells), np.zeros(3), np.array([[2, 0, 0], [0, 2, 0], [0, 0, 2]]))
        P0 = cm.call(momentum_integral, cm.build(shells))
        L0 = cm.call(angular_momentum_integral, cm.build(shells))
        E0 = cm.call(evaluate_basis, cm.build(shells), pts)
        D0 = cm.call(evaluate_deriv_basis, cm.build(shells), pts, np.array([1, 0, 2]))
        for x, w in ((S0, "overlap"), (T0, "kinetic"), (V0, "point_charge"), (N0, "nuclear"), (M0, "moment"), (M2, "moment"), (R2, "moment"), (P0, "momentum"), (L0, "angmom"), (E0, "eval"), (D0, "deriv")):
            if isinstance(x, cm.Raised):
                viols.append(cm.unexpected(x, w))
        if viols:
            return {"evals": 11, "nontrivial": True, "classes": case["classes"], "errs": errs, "violations": viols}
        tdiag = np.abs(np.diag(T0))
        sT = np.sqrt(np.outer(tdiag, tdiag)) + 1e-300
        vd = np.abs(np.einsum("iik->ik", V0))
        sV = np.sqrt(vd[:, None, :] * vd[None, :, :]) + 1e-300
        nd = np.abs(np.diag(N0))
        sN = np.sqrt(np.outer(nd, nd)) + 1e-300
        m2 = np.abs(np.einsum("iik->ik", M2))
        sM = np.sqrt(np.sqrt(m2[:, None, :] * m2[None, :, :])) + 1e-300
        g = np.sqrt(2 * tdiag)
        sP = (np.sqrt(np.outer(g, g)) + 1e-300)[:, :, None]
        rg = np.sqrt(np.abs(np.einsum("iik->i", R2)) * 2 * tdiag)
        sL = (np.sqrt(np.outer(rg, rg)) + 1e-300)[:, :, None]
        # symmetries of the original arrays, judged with the proper scales
        cmp(S0, S0.T, None, 2e-8, "overlap symmetric", "sym_overlap")
        cmp(T0, T0.T, sT, 2e-8, "kinetic symmetric", "sym_kinetic")
        cmp(V0, np.swapaxes(V0, 0, 1), sV, 2e-8, "point-charge symmetric", "sym_point_charge")
        cmp(M0, np.swapaxes(M0, 0, 1), sM, 2e-8, "moment symmetric", "sym_moment")
        cmp(P0, np.conj(np.swapaxes(P0, 0, 1)), sP, 2e-9, "momentum Hermitian", "herm_momentum")
        cmp(L0, np.conj(np.swapaxes(L0, 0, 1)), sL, 2e-9, "angular momentum Hermitian", "herm_angmom")
        if case["eri"]:
            G0 = cm.call(electron_repulsion_integral, cm.build(shells), notation="chemist")
            if isinstance(G0, cm.Raised):
                viols.append(cm.unexpected(G0, "electron_repulsion_integral"))
                G0 = None
            else:
                nn = G0.shape[0]
                dg = np.sqrt(np.abs(G0.reshape(nn * nn, nn * nn).diagonal()).reshape(nn, nn))
                sG = dg[:, :, None, None] * dg[None, None, :, :]
                for perm8, nm in (((1, 0, 2, 3), "(ba|cd)"), ((0, 1, 3, 2), "(ab|dc)"), ((2, 3, 0, 1), "(cd|ab)"), ((3, 2, 1, 0), "(dc|ba)"),
                                  ((1, 0, 3, 2), "(ba|dc)"), ((2, 3, 1, 0), "(cd|ba)"), ((3, 2, 0, 1), "(dc|ab)")):
                    evals += 1
                    far_split(np.abs(G0 - G0.transpose(perm8)), sG, 2e-6, "ERI array vs its index permutation %s" % nm, "eri_8fold", viols, errs, {})
        else:
            G0 = None
        perms = list(itertools.permutations(range(n)))
        if n == 5:
            rng = bases.rng_for("C11perm5", *case["seed"])
            perms = [perms[int(k)] for k in rng.permutation(len(perms))[:12]]
        for perm in perms:
            if list(perm) == list(range(n)):
                continue
            idx = block_perm(nfs, perm)
            psh = [shells[p] for p in perm]
            tag = "shell order %s" % (list(perm),)
            cmp(cm.call(overlap_integral, cm.build(psh)), take(S0, idx, (0, 1)), None, 2e-8, "overlap on permuted basis, " + tag, "perm_overlap")
            cmp(cm.call(kinetic_energy_integral, cm.build(psh)), take(T0, idx, (0, 1)), take(sT, idx, (0, 1)), 2e-8, "kinetic on permuted basis, " + tag, "perm_kinetic")
            cmp(cm.call(point_charge_integral, cm.build(psh), pts, q), take(V0, idx, (0, 1)), take(sV, idx, (0, 1)), 2e-8, "point charge on permuted basis, " + tag, "perm_point_charge")
            cmp(cm.call(nuclear_electron_attraction_integral, cm.build(psh), pts, np.abs(q)), take(N0, idx, (0, 1)), take(sN, idx, (0, 1)), 2e-8, "nuclear attraction on permuted basis, " + tag, "perm_nuclear")
            cmp(cm.call(moment_integral, cm.build(psh), origin, mord), take(M0, idx, (0, 1)), take(sM, idx, (0, 1)), 2e-8, "moments on permuted basis, " + tag, "perm_moment")
            cmp(cm.call(momentum_integral, cm.build(psh)), take(P0, idx, (0, 1)), take(sP, idx, (0, 1)), 2e-9, "momentum on permuted basis, " + tag, "perm_momentum")
            cmp(cm.call(angular_momentum_integral, cm.build(psh)), take(L0, idx, (0, 1)), take(sL, idx, (0, 1)), 2e-9, "angular momentum on permuted basis, " + tag, "perm_angmom")
            cmp(cm.call(evaluate_basis, cm.build(psh), pts), take(E0, idx, (0,)), np.abs(take(E0, idx, (0,))) + 1e-250, 1e-12, "evaluate_basis on permuted basis, " + tag, "perm_eval")
            cmp(cm.call(evaluate_deriv_basis, cm.build(psh), pts, np.array([1, 0, 2])), take(D0, idx, (0,)), np.abs(take(D0, idx, (0,))) + 1e-250, 1e-12, "evaluate_deriv_basis on permuted basis, " + tag, "perm_deriv")
            if G0 is not None:
                Gp = cm.call(electron_repulsion_integral, cm.build(psh), notation="chemist")
                evals += 1
                if isinstance(Gp, cm.Raised):
                    viols.append(cm.unexpected(Gp, "electron_repulsion_integral on permuted basis"))
                else:
                    far_split(np.abs(Gp - take(G0, idx, (0, 1, 2, 3))), take(sG, idx, (0, 1, 2, 3)), 2e-6, "ERI on permuted basis, " + tag, "perm_eri", viols, errs, {})
        sig = {(s["l"], len(s["k"][0]), s["t"]) for s in shells}
        nontrivial = len(sig) >= 2
    elif kind == "pair":
        a, b = cm.build(shells)
        na, nb = a.norm_cont[:, :, None, None], b.norm_cont[None, None, :, :]

        def both(cls, *args, **kw):
            x = cm.call(cls.construct_array_contraction, a, b, *args, **kw)
            y = cm.call(cls.construct_array_contraction, b, a, *args, **kw)
            return x, y

        def normed(x, y):
            extra = (1,) * (x.ndim - 4)
            X = x * na.reshape(na.shape + extra) * nb.reshape(nb.shape + extra)
            Y = y * np.transpose(nb, (2, 3, 0, 1)).reshape(np.transpose(nb, (2, 3, 0, 1)).shape + extra) * np.transpose(na, (2, 3, 0, 1)).reshape(np.transpose(na, (2, 3, 0, 1)).shape + extra)
            return X, np.moveaxis(np.moveaxis(Y, 2, 0), 3, 1)

        # scales from the diagonal blocks of the same kernels
        def diag_of(cls, sh, *args, **kw):
            d = cls.construct_array_contraction(sh, sh, *args, **kw)
            extra = (1,) * (d.ndim - 4)
            d = d * sh.norm_cont[:, :, None, None].reshape(sh.norm_cont.shape + (1, 1) + extra) * sh.norm_cont[None, None, :, :].reshape((1, 1) + sh.norm_cont.shape + extra)
            return np.abs(np.einsum("ijij...->ij...", d))

        x, y = both(Overlap)
        if isinstance(x, cm.Raised) or isinstance(y, cm.Raised):
            viols.append(cm.unexpected(x if isinstance(x, cm.Raised) else y, "Overlap kernel"))
        else:
            X, Y = normed(x, y)
            cmp(X, Y, None, 2e-8, "Overlap kernel block(a,b) vs block(b,a)^T", "orient_overlap")
        x, y = both(KineticEnergyIntegral)
        if not (isinstance(x, cm.Raised) or isinstance(y, cm.Raised)):
            X, Y = normed(x, y)
            ta, tb = diag_of(KineticEnergyIntegral, a), diag_of(KineticEnergyIntegral, b)
            sc = np.sqrt(ta[:, :, None, None] * tb[None, None, :, :]) + 1e-300
            cmp(X, Y, sc, 2e-8, "Kinetic kernel block(a,b) vs block(b,a)^T", "orient_kinetic")
            gsc = np.sqrt(2 * np.sqrt(ta[:, :, None, None] * tb[None, None, :, :])) + 1e-300
        else:
            viols.append(cm.unexpected(x if isinstance(x, cm.Raised) else y, "Kinetic kernel"))
            gsc = None
        x, y = both(PointChargeIntegral, pts, q)
        if not (isinstance(x, cm.Raised) or isinstance(y, cm.Raised)):
            X, Y = normed(x, y)
            va, vb = diag_of(PointChargeIntegral, a, pts, q), diag_of(PointChargeIntegral, b, pts, q)
            sc = np.sqrt(va[:, :, None, None, :] * vb[None, None, :, :, :]) + 1e-300
            cmp(X, Y, sc, 2e-8, "PointCharge kernel block(a,b) vs block(b,a)^T", "orient_point_charge")
        else:
            viols.append(cm.unexpected(x if isinstance(x, cm.Raised) else y, "PointCharge kernel"))
        x, y = both(Moment, moment_coord=origin, moment_orders=mord)
        if not (isinstance(x, cm.Raised) or isinstance(y, cm.Raised)):
            X, Y = normed(x, y)
            ma = diag_of(Moment, a, moment_coord=origin, moment_orders=2 * mord)
            mb = diag_of(Moment, b, moment_coord=origin, moment_orders=2 * mord)
            sc = np.sqrt(np.sqrt(ma[:, :, None, None, :] * mb[None, None, :, :, :])) + 1e-300
            cmp(X, Y, sc, 2e-8, "Moment kernel block(a,b) vs block(b,a)^T", "orient_moment")
        else:
            viols.append(cm.unexpected(x if isinstance(x, cm.Raised) else y, "Moment kernel"))
        for cls, nm in ((MomentumIntegral, "Momentum"), (AngularMomentumIntegral, "AngularMomentum")):
            x, y = both(cls)
            if isinstance(x, cm.Raised) or isinstance(y, cm.Raised):
                viols.append(cm.unexpected(x if isinstance(x, cm.Raised) else y, nm + " kernel"))
                continue
            X, Y = normed(x, y)
            if gsc is None:
                continue
            sc = gsc[..., None]
            if nm == "AngularMomentum":
                ra = np.sqrt(diag_of(Moment, a, moment_coord=np.zeros(3), moment_orders=np.array([[2, 0, 0], [0, 2, 0], [0, 0, 2]])).sum(axis=-1))
                rb = np.sqrt(diag_of(Moment, b, moment_coord=np.zeros(3), moment_orders=np.array([[2, 0, 0], [0, 2, 0], [0, 0, 2]])).sum(axis=-1))
                sc = sc * np.sqrt(ra[:, :, None, None] * rb[None, None, :, :])[..., None] + 1e-300
            cmp(X, np.conj(Y), sc, 2e-9, "%s kernel block(a,b) vs block(b,a)^H" % nm, "orient_" + nm.lower())
        nontrivial = True
    else:
        sh = cm.build(shells)
        ref = cm.call(ElectronRepulsionIntegral.construct_array_contraction, *sh)
        if isinstance(ref, cm.Raised):
            viols.append(cm.unexpected(ref, "ERI kernel"))
        else:
            nc = [s.norm_cont for s in sh]

            def normed4(blk, order):
                for ax, k in enumerate(order):
                    shp = [1] * 8
                    shp[2 * ax], shp[2 * ax + 1] = nc[k].shape
                    blk = blk * nc[k].reshape(shp)
                return blk

            R = normed4(np.array(ref), (0, 1, 2, 3))
            # Schwarz scale from observed diagonal blocks (ab|ab), (cd|cd)
            ab = normed4(np.array(ElectronRepulsionIntegral.construct_array_contraction(sh[0], sh[1], sh[0], sh[1])), (0, 1, 0, 1))
            cd = normed4(np.array(ElectronRepulsionIntegral.construct_array_contraction(sh[2], sh[3], sh[2], sh[3])), (2, 3, 2, 3))
            dab = np.sqrt(np.abs(np.einsum("abcdabcd->abcd", ab)))
            dcd = np.sqrt(np.abs(np.einsum("abcdabcd->abcd", cd)))
            sc = dab[:, :, :, :, None, None, None, None] * dcd[None, None, None, None, :, :, :, :]
            info = {"A_given": c04.amp(shells[:2], shells[2:]), "A_swapped": c04.amp(shells[2:], shells[:2]), "ls": cm.ls_of(shells),
                    "A_total": c04.amp_total(shells)[0]}
            pol0 = c04.policy_block(shells, sh)
            if pol0 is not None:
                pol0 = normed4(np.array(pol0), (0, 1, 2, 3))
            for order, nm in (((1, 0, 2, 3), "(ba|cd)"), ((0, 1, 3, 2), "(ab|dc)"), ((2, 3, 0, 1), "(cd|ab)"), ((3, 2, 1, 0), "(dc|ba)"),
                              ((1, 0, 3, 2), "(ba|dc)"), ((2, 3, 1, 0), "(cd|ba)"), ((3, 2, 0, 1), "(dc|ab)")):
                o = cm.call(ElectronRepulsionIntegral.construct_array_contraction, *[sh[k] for k in order])
                evals += 1
                if isinstance(o, cm.Raised):
                    viols.append(cm.unexpected(o, "ERI kernel orientation " + nm))
                    continue
                O = normed4(np.array(o), order)
                # bring axes back: axis pair j of O belongs to shell order[j]
                inv = [order.index(k) for k in range(4)]
                axes = [x for k in inv for x in (2 * k, 2 * k + 1)]
                O = np.transpose(O, axes)
                info.pop("policy_err", None)
                if pol0 is not None and not float((np.abs(O - R) / (sc + 1e-300)).max()) <= 2e-6:
                    # how far apart the library's own kernel puts the two orientations when each is evaluated in the
                    # orientation the documented policy selects (for the classifier, see c04.policy_block)
                    pk = c04.policy_block([shells[k] for k in order], [sh[k] for k in order])
                    if pk is not None:
                        pk = np.transpose(normed4(np.array(pk), order), axes)
                        with np.errstate(all="ignore"):
                            pe = np.abs(pk - pol0) / (sc + 1e-300)
                        info["policy_err"] = float(np.nanmax(np.where(sc < c04.FAR * float(sc.max()), 0.0, pe))) if np.all(np.isfinite(pk)) else 1e300
                far_split(np.abs(O - R), sc, 2e-6, "ERI kernel orientation %s vs (ab|cd) for %s" % (nm, "".join("spdf"[l] for l in info["ls"])), "orient_eri", viols, errs, info)
        nontrivial = sum(s["l"] for s in shells) >= 1
    return {"evals": evals, "nontrivial": bool(nontrivial), "classes": case["classes"], "errs": errs, "violations": viols}


def classify(case, v):
    q = v.get("qty", "")
    if q.endswith("_farfield") and v.get("abs_err") is not None and v.get("schwarz", 1) < c04.FAR * v.get("schwarz_max", 0) and v["abs_err"] <= 1e-13 * v.get("schwarz_max", 0):
        return "C11/far-field-cancellation"
    if q in ("herm_momentum", "herm_angmom", "perm_momentum", "perm_angmom", "M-herm"):
        return "C08/lower-triangle-not-conjugated"
    if q == "orient_eri" and v.get("A_total") is not None:
        # two orientations of a quartet whose BEST orientation already amplifies rounding (see c04.amp_total): the
        # difference of two evaluations may be twice the single-evaluation envelope accepted for C04
        A = v["A_total"]
        if A >= c04.A0 and v.get("err", 1.0) <= 2 * min(1e-2, 1e4 * c04.EPS * float(np.exp(min(A, 60.0)))):
            # ... and the two orientations are not much further apart than the library's own kernel puts them when both
            # are evaluated as the documented orientation policy prescribes (they then differ only through ties)
            if v.get("policy_err") is None or v.get("err", 1.0) <= 10.0 * v["policy_err"]:
                return "C11/recursion-amplification"
    return None


def summarize(cases, results, counts, lists, tier):
    return {"permutations": "all permutations of 2-4 shells, 12 sampled of 5", "orientations": "2 per pair kernel (6 kernels), 8 per ERI quartet"}
