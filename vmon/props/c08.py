"""C08 momentum / angular-momentum integrals exact for every ordered pair, Hermitian for every shell order."""
import itertools

import numpy as np

from vmon.gen import bases
from vmon.props import common as cm
from vmon.ref import gto

ID = "C08"
OWNS = ("C08",)
TOL = 1e-9
RULE = (
    "bases of 1-4 shells (l 0..4, 1-4 primitives, 1-3 segments, any centres, cartesian/spherical per shell, with and "
    "without a transform); momentum_integral and angular_momentum_integral are called on EVERY ordering of the shells "
    "(all permutations up to 4 shells) and compared, for every ordered pair (a,b) and component, with the reference "
    "-i<a|grad|b> and -i<a|r x grad|b> about the coordinate origin (both orientations computed independently, nothing "
    "filled by symmetry); bound 1e-9 * conditioning scale (momentum: sqrt(|grad a| |grad b|); angular momentum: "
    "sqrt(|r a||grad a| |r b||grad b|)); each component must be Hermitian (real part exactly 0, antisymmetric "
    "imaginary part; always-on M-herm monitor). non-trivial = at least two shells or a shell with l>=1, and a "
    "reference element above 1e-6 of its scale in a strictly-lower-triangle shell block or a diagonal block."
)
FLOOR = {"quick": 25, "thorough": 100}
DECIDING = ["eval:momentum_integral", "eval:angular_momentum_integral", "kernel:MomentumIntegral", "kernel:AngularMomentumIntegral", "M-herm"]
REQUIRED_LINES = [
    ("gbasis/integrals/momentum.py", "return MomentumIntegral(basis).construct_array_mix(coord_type)"),
    ("gbasis/integrals/angular_momentum.py", "return AngularMomentumIntegral(basis).construct_array_mix(coord_type)"),
]
ASSUMPTIONS = ["reference model vmon/ref/gto.py after self-test"]


def gen_cases(tier, seed):
    n = 120 if tier == "quick" else 720
    cases = []
    for i in range(n):
        rng = bases.rng_for("C08", seed, tier, i)
        nsh = 1 + i % 4
        ls = [int(x) for x in rng.integers(0, 5, size=nsh)]
        if i % 6 == 0:
            ls[-1] = 4
        if nsh == 1 and ls[0] == 0:
            ls[0] = 1 + i % 4
        tp = None
        if i % 3 == 0:
            tp = list(bases.type_patterns(nsh)[(i // 3) % (2 ** nsh)])
        shells, classes = bases.rand_basis(rng, ls, types=tp, scale=1.3)
        ntot = sum(bases.nfunc(s) for s in shells)
        T, tcls = bases.rand_transform(rng, ntot, "none" if i % 4 else None)
        cases.append({"shells": shells, "transform": T, "classes": classes + [tcls, "nsh:%d" % nsh, "types:" + "".join(s["t"] for s in shells)],
                      "cost": sum((3 + a) * (3 + b) * len(x["e"]) * len(y["e"]) for x, a in zip(shells, ls) for y, b in zip(shells, ls))})
    for k, (la, lb) in enumerate(itertools.product(range(4), repeat=2)):
        rng = bases.rng_for("C08", seed, tier, "displaced", la, lb)
        shells, classes = bases.displaced_pair(rng, la, lb)
        cases.append({"shells": shells, "transform": None, "classes": classes + ["T:none", "nsh:2", "types:" + "".join(s_["t"] for s_ in shells)], "cost": 40})
    # tight shells (top of the published exponent range for their l) about one width apart: the un-normalised primitive
    # integrals are tiny numbers there while the normalised ones are of order one
    for k in range(12 if tier == "quick" else 96):
        rng = bases.rng_for("C08", seed, tier, "tight-near", k)
        la, lb = [(0, 0), (1, 1), (2, 2), (3, 3), (4, 4), (1, 0), (2, 1), (3, 2), (4, 3), (2, 0), (3, 1), (4, 2)][k % 12]
        # C08 states no exponent range ("any basis"): every other pair uses exponents 30 or 1000 times above the published
        # range for its angular momentum (decontracted core functions of heavy elements, even-tempered extensions)
        shells, classes = bases.tight_near_pair(rng, la, lb, boost=[1.0, 30.0, 1.0, 1000.0][k % 4])
        cases.append({"shells": shells, "transform": None, "classes": classes + ["T:none", "nsh:2", "types:" + "".join(s_["t"] for s_ in shells)], "cost": 40})
    # tight shells with a weak overlap: exp(-mu R^2) = 1e-3 .. 1e-13 while the primitive norms are 1e3 .. 1e8, so that the
    # un-normalised primitive integrals pass through the range of the machine precision while the normalised ones are
    # still far above the bound
    for k, t in enumerate(range(6, 30, 2) if tier == "quick" else range(4, 34)):
        rng = bases.rng_for("C08", seed, tier, "tight-window", t)
        la, lb = [(0, 0), (1, 0), (1, 1), (2, 1), (2, 2), (3, 2)][k % 6]
        shells, classes = bases.window_pair(rng, la, lb, tmin=t, tmax=t + 2, emin=bases.cap(max(la, lb)) / 30.0, emax=1e5)
        cases.append({"shells": shells, "transform": None, "classes": classes + ["tight-window", "T:none", "nsh:2", "types:" + "".join(s_["t"] for s_ in shells)], "cost": 40})
    # the whole molecule far from the coordinate origin (the angular momentum is taken about the origin), with a transformation:
    # 26..60 bohr, where a "local origin" strategy would switch on, and 300..3000 bohr
    for k in range(8 if tier == "quick" else 96):
        rng = bases.rng_for("C08", seed, tier, "far-T", k)
        nsh = int(rng.integers(1, 4))
        ls = [int(x) for x in rng.integers(0, 4, size=nsh)]
        shells, classes = bases.rand_basis(rng, ls, scale=1.0, geom="general", emax_fn=lambda l: min(bases.cap(l), 100.0), Kmax=3, Mmax=2)
        u = rng.normal(size=3)
        u /= np.linalg.norm(u)
        off = u * float(rng.uniform(26.0, 60.0) if k % 3 else rng.uniform(300.0, 3000.0))
        for s_ in shells:
            s_["c"] = [float(v) for v in np.array(s_["c"]) + off]
        ntot = sum(bases.nfunc(s_) for s_ in shells)
        T, tcls = bases.rand_transform(rng, ntot, ["orth", "fewer", "more", "general"][k % 4])
        cases.append({"shells": shells, "transform": T, "classes": classes + [tcls, "far-from-origin+transform", "nsh:%d" % nsh, "types:" + "".join(s_["t"] for s_ in shells)], "cost": 60})
    cases += bases.dup_variants("C08", seed, tier, cases, 5, ok=lambda c: c.get("transform") is None)  # one shell listed twice as the same object
    cases += bases.argrep_variants("C08", seed, tier, cases, 5, ok=lambda c: "shells" in c and c.get("kind") in (None, "whole", "kernel", "perm", "real"))  # constructor arguments in other in-memory representations
    return cases


def run_case(case):
    from gbasis.integrals.angular_momentum import angular_momentum_integral
    from gbasis.integrals.momentum import momentum_integral

    shells = case["shells"]
    T = None if case["transform"] is None else np.array(case["transform"], dtype=float)
    viols, errs = [], {}
    evals = 0
    rs = cm.rshells(shells)
    n = len(shells)
    offs = gto.offsets(rs)
    P = gto.momentum(rs)
    L = gto.angular_momentum(rs)
    kin = np.abs(np.diag(gto.kinetic(rs))) * 2  # |grad a|^2
    r2 = np.abs(np.einsum("iid->i", gto.moments(rs, np.zeros(3), [(2, 0, 0), (0, 2, 0), (0, 0, 2)])))
    g = np.sqrt(kin)
    rg = np.sqrt(r2 * kin)
    perms = list(itertools.permutations(range(n)))
    nontrivial = False
    for perm in perms:
        idx = np.concatenate([np.arange(offs[p], offs[p + 1]) for p in perm])
        Pp, Lp = P[np.ix_(idx, idx)], L[np.ix_(idx, idx)]
        sP = np.sqrt(np.outer(g[idx], g[idx]))[:, :, None]
        sL = np.sqrt(np.outer(rg[idx], rg[idx]))[:, :, None]
        if T is not None:
            if perm != perms[0]:
                continue
            Pp = np.einsum("ia,jb,abk->ijk", T, T, Pp)
            Lp = np.einsum("ia,jb,abk->ijk", T, T, Lp)
            aT = np.abs(T)
            sP = np.einsum("ia,jb,abk->ijk", aT, aT, sP * np.ones((1, 1, 1)))
            sL = np.einsum("ia,jb,abk->ijk", aT, aT, sL * np.ones((1, 1, 1)))
        psh = [shells[p] for p in perm]
        kw = {} if T is None else {"transform": T.copy()}
        for fn, ref, sc, name in ((momentum_integral, Pp, sP, "momentum"), (angular_momentum_integral, Lp, sL, "angular_momentum")):
            out = cm.call(fn, cm.build(psh), **kw)
            evals += 1
            cm.compare(out, ref, TOL, "%s_integral(shell order %s)" % (name, list(perm)), name, viols, errs,
                       scale=np.broadcast_to(sc, ref.shape) + 1e-300, ls=cm.ls_of(psh))
            if isinstance(out, np.ndarray) and out.shape == ref.shape:
                re = float(np.abs(out.real).max()) if np.iscomplexobj(out) else float(np.abs(out).max())
                hd, hat = cm.maxerr(out, np.conj(np.swapaxes(out, 0, 1)), np.broadcast_to(sc, ref.shape) + 1e-300)
                errs[name + "_hermitian"] = max(errs.get(name + "_hermitian", 0.0), hd)
                evals += 1
                if not hd <= 2 * TOL:
                    viols.append(cm.viol("%s_integral is not Hermitian: |A - A^H| = %.3e of the conditioning scale at %s (shell order %s)" % (name, hd, hat, list(perm)),
                                         name + "_hermitian", hd, 2 * TOL))
                if True:
                    errs[name + "_realpart"] = max(errs.get(name + "_realpart", 0.0), re)
                    if re != 0.0 and re > 1e-12 * float(np.abs(ref).max() + 1e-300):
                        viols.append(cm.viol("%s_integral has a non-zero real part %.3e (must be purely imaginary)" % (name, re), name + "_realpart", re, 0.0))
        # non-triviality (reference only)
        rel = np.abs(Lp) / (np.broadcast_to(sL, Lp.shape) + 1e-300)
        relp = np.abs(Pp) / (np.broadcast_to(sP, Pp.shape) + 1e-300)
        if T is None:
            noffs = np.cumsum([0] + [rs[p].nfunc for p in perm])
            for i in range(n):
                for j in range(0, i + 1):
                    blk = (slice(noffs[i], noffs[i + 1]), slice(noffs[j], noffs[j + 1]))
                    if max(rel[blk].max(), relp[blk].max()) > 1e-6:
                        nontrivial = True
        else:
            nontrivial = nontrivial or (max(rel.max(), relp.max()) > 1e-6)
    return {"evals": evals, "nontrivial": bool(nontrivial), "classes": case.get("classes", []) + ["perms:%d" % (len(perms) if T is None else 1)],
            "errs": errs, "violations": viols}


def classify(case, v):
    """mechanism keys for known/fixed findings"""
    q = v.get("qty", "")
    if q in ("momentum", "angular_momentum", "M-herm", "momentum_hermitian", "angular_momentum_hermitian"):
        return "C08/lower-triangle-not-conjugated"
    return None


def summarize(cases, results, counts, lists, tier):
    return {"bound": "1e-9 * conditioning scale", "shell_orderings": "all permutations of every basis without transform"}
