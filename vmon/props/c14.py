"""C14 electrostatic potential = nuclear - electronic Coulomb potential; distance threshold; transforms."""
import numpy as np

from vmon.gen import bases
from vmon.props import common as cm
from vmon.ref import gto

ID = "C14"
OWNS = ("C14",)
TOL = 1e-8
RULE = (
    "bases of 1-3 shells (l 0..3, generalized, cartesian/spherical per shell), symmetric density matrices, 1-30 points "
    "(generic, near and exactly on nuclei), 1-5 nuclei with charges of either sign and |Z| in [0.1,100], thresholds 0, "
    "beyond the largest point-nucleus distance, generic, and d(1-1e-6)/d(1+1e-6) bracketing individual point-nucleus "
    "distances; absent/square/rectangular transforms; electrostatic_potential is compared with sum_A Z_A/d [d>=thr] - "
    "sum gamma_ab V_ab(R) using McMurchie-Davidson reference integrals (with T: T V T^t), bound 1e-8*(sum|Z|/d + "
    "sum|gamma||V|); a point on a nucleus gives +-inf for thr=0 and excludes the nucleus for thr>0. non-trivial = "
    "at least one (point, nucleus) pair excluded and one included by the threshold, non-zero density matrix."
)
FLOOR = {"quick": 25, "thorough": 100}
DECIDING = ["eval:electrostatic_potential", "eval:point_charge_integral"]
ASSUMPTIONS = ["reference Coulomb integrals from vmon/ref/gto.py after self-test"]


def gen_cases(tier, seed):
    n = 200 if tier == "quick" else 3000
    cases = []
    for i in range(n):
        rng = bases.rng_for("C14", seed, tier, i)
        nsh = int(rng.integers(1, 4))
        ls = [int(x) for x in rng.integers(0, 4, size=nsh)]
        if i % 5 == 2:
            ls[0] = 3
        tp = list(bases.type_patterns(nsh)[(i // 2) % (2 ** nsh)]) if i % 2 else None
        shells, classes = bases.rand_basis(rng, ls, types=tp, scale=1.0, emax_fn=lambda l: min(bases.cap(l), 500.0), Kmax=3, Mmax=2)
        if i % 6 == 4:
            # two shells at a separation where their Gaussian product factor exp(-mu R^2) is 1e-3 .. 1e-10: small, but far
            # above the 1e-8 bound once multiplied by the density matrix; the direction is generic or a body diagonal
            la_, lb_ = int(rng.integers(0, 4)), int(rng.integers(0, 4))
            t_ = float(rng.uniform(7.0, 23.0))
            wp, wcls = bases.window_pair(rng, la_, lb_, tmin=t_, tmax=t_ + 1.0, emin=0.1, emax=5.0)
            if i % 12 == 4:
                a_, b_ = np.array(wp[0]["c"]), np.array(wp[1]["c"])
                R_ = float(np.linalg.norm(b_ - a_))
                sg = rng.choice([-1.0, 1.0])
                wp[1]["c"] = [float(v) for v in a_ + sg * R_ / np.sqrt(3.0) * np.ones(3) * (1.0 + 0.05 * rng.normal(size=3))]
            for w_, t__ in zip(wp, (tp or ["c", "p"])[:2] if nsh >= 2 else "cp"):
                w_["t"] = t__
            shells = wp + shells[2:]
            nsh = len(shells)
            ls = [s_["l"] for s_ in shells]
            classes = sorted(set(classes) | set(wcls[:1]))
        nnuc = int(rng.integers(1, 6))
        nuc = [list(shells[k % nsh]["c"]) if k < nsh and rng.random() < 0.7 else [float(v) for v in rng.normal(size=3) * 1.5] for k in range(nnuc)]
        Z = [float(v) for v in np.exp(rng.uniform(np.log(0.1), np.log(100), size=nnuc)) * rng.choice([-1.0, 1.0], size=nnuc, p=[0.35, 0.65])]
        zint = bool(i % 8 == 6)
        if zint:
            # atomic numbers handed over as an integer array, thresholds as Python ints
            Z = [float(np.sign(z) * max(1.0, round(abs(z)))) for z in Z]
        npts = bases.npts_pick(rng, 31) if i % 5 else int(rng.integers(1, 6))
        pts = []
        pcl = set()
        for k in range(npts):
            kind = str(rng.choice(["generic", "generic", "near-nuc", "on-nuc", "far"]))
            a = np.array(nuc[int(rng.integers(nnuc))])
            if kind == "on-nuc" and i % 4 == 0:
                p = a.copy()
                pcl.add("pt:on-nucleus")
            elif kind == "near-nuc":
                p = a + rng.normal(size=3) * 10.0 ** rng.uniform(-3, -0.3)
                pcl.add("pt:near-nucleus")
            elif kind == "far":
                p = a + rng.normal(size=3) * 6
                pcl.add("pt:far")
            else:
                p = a + rng.normal(size=3) * 1.2
                pcl.add("pt:generic")
            pts.append([float(v) for v in p])
        if npts >= 2 and i % 7 == 3:
            pts[-1] = list(pts[0])  # the same point listed twice
            pcl.add("pt:duplicate")
        if i % 5 == 2:
            # Boys window: points where (a+b)|P-C|^2 of the dominant primitive pairs of the highest-l shell is 15 .. 45
            hs = max(shells, key=lambda s_: s_["l"])
            a_ = max(hs["e"])
            for k in range(min(6, len(pts))):
                u = rng.normal(size=3)
                u /= np.linalg.norm(u)
                pts[k] = [float(v) for v in np.array(hs["c"]) + u * np.sqrt(float(rng.uniform(15, 45)) / (2 * a_))]
            pcl.add("pt:boys-window")
        ntot = sum(bases.nfunc(s) for s in shells)
        T, tcls = bases.rand_transform(rng, ntot, ["none", "orth", "fewer", "more", "general", "none"][i % 6])
        norb = ntot if T is None else len(T)
        dm, dcls = bases.rand_sym(rng, norb, ["psd", "indef", "psd-lowrank", "diag", "diag-indef", "psd", "blockdiag", "hollow"][i % 8])
        # thresholds
        P, Nn = np.array(pts), np.array(nuc)
        d = np.sqrt(((P[:, None, :] - Nn[None, :, :]) ** 2).sum(axis=2))
        pos = np.sort(d[d > 0].ravel())
        thr = [0.0, float(d.max() * 1.5 + 1.0)]
        if len(pos):
            for q in (0.3, 0.7):
                x = float(pos[int(q * (len(pos) - 1))])
                thr += [x * (1 - 1e-6), x * (1 + 1e-6)]
            thr.append(float(rng.uniform(pos[0], pos[-1])))
        if np.any(d == 0):
            # a point exactly on a nucleus: any positive threshold, however small, leaves that nucleus out
            thr += [1e-12, 1e-9, float(10.0 ** rng.uniform(-7, -3)), 1e-200, 5e-324]
        if i % 9 == 4:
            thr.append(1e200)  # beyond every distance by any margin: every nucleus is left out everywhere
        if zint:
            thr += [1.0, 2.0]
        cases.append({"shells": shells, "points": pts, "nuc": nuc, "Z": Z, "dm": dm, "transform": T, "thresholds": thr, "Z_int": zint,
                      "classes": classes + sorted(pcl) + [tcls, dcls, "nnuc:%d" % nnuc] + (["Z:negative"] if min(Z) < 0 else []) + (["Z:big"] if max(abs(z) for z in Z) > 5 else []) + (["Z:int-array", "thr:int"] if zint else []),
                      "cost": len(pts) * sum((3 + a + b) ** 3 * len(x["e"]) * len(y["e"]) for x, a in zip(shells, ls) for y, b in zip(shells, ls))})
    # large grids (more than 500 / 1000 points in one call) with a square and a rectangular transformation
    for k, npts in enumerate((520, 1300) if tier == "quick" else (520, 760, 1030, 1300, 2100)):
        rng = bases.rng_for("C14", seed, tier, "many-points", npts)
        ls = [[1, 0], [0, 2], [1, 1]][k % 3]
        shells, classes = bases.rand_basis(rng, ls, scale=1.0, emax_fn=lambda l: 20.0, Kmax=2, Mmax=1, symmetric=False)
        ntot = sum(bases.nfunc(s) for s in shells)
        T, tcls = bases.rand_transform(rng, ntot, ["general", "fewer", "orth"][k % 3])
        dm, dcls = bases.rand_sym(rng, len(T), "indef")
        nuc = [list(s["c"]) for s in shells]
        pts = (np.array(shells[0]["c"]) + rng.normal(size=(npts, 3)) * 2.0).tolist()
        cases.append({"shells": shells, "points": pts, "nuc": nuc, "Z": [3.0, 1.0], "dm": dm, "transform": T, "thresholds": [0.0, 0.4], "Z_int": False,
                      "classes": classes + ["pt:many(%d)" % npts, tcls, dcls, "nnuc:2"], "cost": npts * 40})
    cases += bases.argrep_variants("C14", seed, tier, cases, 6, ok=lambda c: "shells" in c and c.get("kind") in (None, "whole", "kernel", "perm", "real"))  # constructor arguments in other in-memory representations
    return cases


def run_case(case):
    from gbasis.evals.electrostatic_potential import electrostatic_potential

    shells = case["shells"]
    pts = np.array(case["points"], dtype=float).reshape(-1, 3)
    nuc = np.array(case["nuc"], dtype=float).reshape(-1, 3)
    Z = np.array(case["Z"], dtype=float)
    dm = np.array(case["dm"], dtype=float)
    T = None if case["transform"] is None else np.array(case["transform"], dtype=float)
    viols, errs = [], {}
    evals = 0
    rs = cm.rshells(shells)
    V = gto.point_charge(rs, pts, -np.ones(len(pts)))  # + integral of phi_a phi_b / |r - R|
    # yardstick of the electronic term: C03 states the accuracy of an integral V_ab relative to sqrt(V_aa V_bb), so that is the
    # magnitude each gamma_ab V_ab is charged with (a hollow density matrix picks only off-diagonal integrals, which may be
    # orders of magnitude below it: FA28); through a transformation the magnitudes are carried by |T|
    dgV = np.abs(np.einsum("aan->an", V))
    scV = np.sqrt(dgV[:, None, :] * dgV[None, :, :])
    if T is not None:
        V = np.einsum("ia,jb,abn->ijn", T, T, V)
        scV = np.einsum("ia,jb,abn->ijn", np.abs(T), np.abs(T), scV)
    elec = np.einsum("ij,ijn->n", dm, V)
    elec_sc = np.einsum("ij,ijn->n", np.abs(dm), scV)
    d = np.sqrt(((pts[:, None, :] - nuc[None, :, :]) ** 2).sum(axis=2))
    rkind = cm.REPS[(len(pts) + len(Z)) % len(cm.REPS)]  # in-memory representation of the array arguments
    kw = {} if T is None else {"transform": cm.rep(T, rkind)}
    mixed = False
    for thr in case["thresholds"]:
        # skip decisions closer than 1e-9 relative to the boundary (not judged by design)
        if thr > 0 and np.any(np.abs(d / thr - 1) < 1e-9):
            errs["boundary_skipped"] = errs.get("boundary_skipped", 0.0) + 1
            continue
        keep = d >= thr
        with np.errstate(divide="ignore", invalid="ignore"):
            terms = np.where(keep, Z[None, :] / d, 0.0)
        nucpot = terms.sum(axis=1)
        ref = nucpot - elec
        scale = np.where(np.isfinite(nucpot), np.abs(np.where(np.isfinite(terms), terms, 0.0)).sum(axis=1), 0.0) + elec_sc + 1e-300
        zarg = np.array(Z, dtype=int) if case.get("Z_int") else cm.rep(Z, rkind)
        targ = int(thr) if (case.get("Z_int") and float(thr) == int(thr) and thr < 1e9) else float(thr)
        out = cm.call(electrostatic_potential, cm.build(shells), cm.rep(dm, rkind), cm.rep(pts, rkind), cm.rep(nuc, rkind), zarg, threshold_dist=targ, **kw)
        evals += 1
        if keep.any() and (~keep).any():
            mixed = True
        if isinstance(out, cm.Raised):
            viols.append(cm.unexpected(out, "electrostatic_potential(threshold_dist=%.6g%s)" % (thr, "" if T is None else ", transform %s" % (T.shape,)),
                                       transform_shape=None if T is None else list(T.shape)))
            continue
        sv = cm.shape_violation(out, ref.shape, "electrostatic_potential")
        if sv:
            viols.append(sv)
            continue
        fin = np.isfinite(ref)
        if not np.array_equal(np.isfinite(out), fin) or not np.array_equal(out[~fin], ref[~fin], equal_nan=True):
            viols.append(cm.viol("infinite values (points on nuclei) differ from the expected pattern at threshold %.3g: got %s expected %s" % (thr, out[~fin | ~np.isfinite(out)][:4], ref[~fin | ~np.isfinite(out)][:4]), "esp_inf", thr=thr))
        if fin.any():
            e, at = cm.maxerr(out[fin], ref[fin], scale[fin])
            errs["esp"] = max(errs.get("esp", 0.0), e)
            if not e <= TOL:
                # attribute: which nuclei are wrongly in/excluded at the worst point
                ip = np.flatnonzero(fin)[at[0]]
                with np.errstate(divide="ignore", invalid="ignore"):
                    alt = Z / d[ip]
                diff = out[ip] - ref[ip]
                who = None
                for a in range(len(Z)):
                    if np.isfinite(alt[a]):
                        if keep[ip, a] and abs(diff + alt[a]) <= 1e-6 * abs(alt[a]):
                            who = {"nucleus": a, "Z": float(Z[a]), "d": float(d[ip, a]), "thr": float(thr), "error": "dropped although d >= threshold"}
                        if (not keep[ip, a]) and abs(diff - alt[a]) <= 1e-6 * abs(alt[a]):
                            who = {"nucleus": a, "Z": float(Z[a]), "d": float(d[ip, a]), "thr": float(thr), "error": "kept although d < threshold"}
                viols.append(cm.viol("electrostatic_potential deviates by %.3e of the scale at point %d, threshold %.6g%s" % (e, ip, thr, "" if who is None else " (%s: Z=%.3g d=%.4g)" % (who["error"], who["Z"], who["d"])),
                                     "esp", e, TOL, thr=float(thr), mask=who))
    nontrivial = mixed and "dm:zero" not in case["classes"]
    return {"evals": evals, "nontrivial": bool(nontrivial), "classes": case.get("classes", []), "errs": errs, "violations": viols}


def classify(case, v):
    m = v.get("mask")
    if v.get("qty") == "esp" and m:
        return "C14/threshold-compares-Z-over-d"
    if v.get("qty", "").startswith("exception:electrostatic_potential") and v.get("exc_type") == "ValueError" and v.get("transform_shape") and v["transform_shape"][0] != v["transform_shape"][1]:
        return "C14/rectangular-transform-rejected"
    return None


def summarize(cases, results, counts, lists, tier):
    return {"bound": "1e-8 * (sum |Z|/d + sum |gamma||V|)", "threshold_evaluations": sum(r.get("evals", 0) for r in results)}
