"""C17 Gram-matrix positivity and Schwarz bounds of the returned integral arrays (no reference model)."""
import numpy as np

from vmon.gen import bases
from vmon.props import common as cm

ID = "C17"
OWNS = ("C17",)
RULE = (
    "bases of 1-5 shells (l 0..3, generalized, every coordinate-type pattern) with centres from coincident to 30 bohr "
    "apart, exponents 0.05..50 (0.1..10 for the repulsion array), including nearly linearly dependent bases (two shells "
    "1e-3 bohr apart with equal exponents, near-parallel coefficient columns), positive point charges anywhere; "
    "invariant monitors on the observed arrays only: overlap symmetric, lambda_min >= -1e-9 lambda_max, |S_ab| <= "
    "1+1e-9; kinetic PSD; point-charge matrix of each positive charge NSD; ERI as (ab|cd) matrix symmetric PSD "
    "(lambda_min >= -1e-6 lambda_max), (ab|ab) >= -1e-6*scale, (ab|cd)^2 <= (ab|ab)(cd|cd) + 1e-6*max(ab|ab)^2 (the statement's allowance relative to the largest element). "
    "non-trivial = at least two shells (so that off-diagonal blocks exist) and, for ERI cases, total L >= 1."
)
FLOOR = {"quick": 30, "thorough": 120}
DECIDING = ["eval:overlap_integral", "eval:kinetic_energy_integral", "eval:point_charge_integral", "eval:electron_repulsion_integral"]
ASSUMPTIONS = ["numpy.linalg.eigvalsh on symmetrised arrays"]


def gen_cases(tier, seed):
    n = 240 if tier == "quick" else 3000
    cases = []
    for i in range(n):
        rng = bases.rng_for("C17", seed, tier, i)
        eri = i % 3 == 0
        nsh = int(rng.integers(1, 6)) if not eri else int(rng.integers(1, 4))
        lmax = 3 if not eri else 2
        ls = [int(x) for x in rng.integers(0, lmax + 1, size=nsh)]
        if eri and sum((l + 1) * (l + 2) // 2 for l in ls) > 16:
            ls = ls[:2]
            nsh = len(ls)
        pats = bases.type_patterns(nsh)
        tp = list(pats[i % len(pats)])
        lo, hi = (0.1, 10.0) if eri else (0.05, 50.0)
        sym = bool(nsh >= 3 and i % 5 == 2)  # equivalent atoms around a centre: identical shells at equal distances in different directions
        if sym:
            ls = [ls[0]] + [min(ls[1:])] * (nsh - 1)
        shells, classes = bases.rand_basis(rng, ls, types=tp, emin=lo, emax_fn=lambda l: hi, Kmax=3, Mmax=2 if eri else 3, scale=1.5, symmetric=True if sym else None)
        if i % 4 == 1 and nsh >= 2:  # nearly linearly dependent: shell 1 = shell 0 moved by 1e-3 bohr
            shells[1] = dict(shells[0], c=[shells[0]["c"][0] + 1e-3, shells[0]["c"][1], shells[0]["c"][2]], t=shells[1]["t"])
            classes.append("near-dependent")
        if i % 4 == 3 and nsh >= 2:  # a displaced copy 1e-7 .. 3e-5 bohr away, a few bohr from the origin
            dlt = float(rng.choice([1e-7, 1e-6, 1e-5, 3e-5]))
            u = rng.normal(size=3)
            u /= np.linalg.norm(u)
            off = rng.normal(size=3) * 4.0
            shells[0]["c"] = [float(v) for v in np.array(shells[0]["c"]) + off]
            shells[1] = dict(shells[0], c=[float(v) for v in np.array(shells[0]["c"]) + u * dlt], t=shells[1]["t"])
            classes.append("near-dependent-displaced")
        if eri and i % 6 == 3:
            shells[0] = dict(shells[0], l=0, e=[7.5, 1.1, 0.25], k=[[0.4, 0.0], [0.7, -0.3], [0.0, 1.0]])
            if nsh >= 2 and shells[1]["l"] == 0:
                shells[1] = dict(shells[1], l=1)
            classes.append("coef:zeros-s")
        nq = int(rng.integers(1, 5))
        pts, _ = bases.rand_points(rng, shells, nq)
        if i % 2 == 0:  # charges in the Boys window of the highest-l shell: (a+b)|P-C|^2 = 15 .. 45
            hs = max(shells, key=lambda s_: s_["l"])
            for k in range(len(pts)):
                u = rng.normal(size=3)
                u /= np.linalg.norm(u)
                pts[k] = [float(v) for v in np.array(hs["c"]) + u * np.sqrt(float(rng.uniform(15, 45)) / (2 * max(hs["e"])))]
            classes.append("q:boys-window")
        q = [float(x) for x in np.exp(rng.uniform(np.log(0.1), np.log(100), size=nq))]
        cases.append({"shells": shells, "points": pts, "charges": q, "eri": eri, "classes": classes + ["eri" if eri else "1e", "nsh:%d" % nsh, "types:" + "".join(tp)],
                      "cost": (sum(bases.nfunc(s) for s in shells) ** 4 / 20 if eri else nsh * nsh * 10)})
    # many positive charges in one call (a grid of charges): every slice must still be negative semi-definite
    for i, N in enumerate((300, 1100) if tier == "quick" else (300, 520, 1100, 2600, 4200)):
        rng = bases.rng_for("C17", seed, tier, "many", N)
        ls = [[2, 1, 0], [2, 1], [1, 0, 2, 1]][i % 3]  # descending and mixed orders of angular momentum
        tp = list(bases.type_patterns(len(ls))[(i * 3 + 1) % len(bases.type_patterns(len(ls)))])
        shells, classes = bases.rand_basis(rng, ls, types=tp, emin=0.5, emax_fn=lambda l: 20.0, Kmax=3, Mmax=2, scale=0.6)
        pts = (rng.normal(size=(N, 3)) * 1.2).tolist()  # charges inside the functions, where the Schwarz bound is nearly attained
        q = [float(x) for x in np.exp(rng.uniform(np.log(0.1), np.log(100), size=N))]
        cases.append({"shells": shells, "points": pts, "charges": q, "eri": False, "classes": classes + ["1e", "many-charges:%d" % N, "nsh:%d" % len(ls), "types:" + "".join(tp)], "cost": 200 + N})
    # long contractions in the repulsion array (8-10 primitives per shell, s and p): positivity needs every block, also those built
    # through code paths that only long contractions reach
    for k in range(3 if tier == "quick" else 24):
        rng = bases.rng_for("C17", seed, tier, "longK-eri", k)
        c0 = rng.normal(size=3)
        shells = []
        for j in range(2):
            K_ = int(rng.integers(8, 11))
            e_ = [float(v) for v in np.exp(np.linspace(np.log(0.15), np.log(9.0), K_)) * np.exp(rng.normal(size=K_) * 0.05)]
            l_ = [1, 0, 1][(k + j) % 3]
            shells.append({"l": l_, "c": [float(v) for v in c0 + j * rng.normal(size=3) * 0.9], "e": e_, "k": bases.rand_coeffs(rng, l_, e_, 1), "t": "c"})
        cases.append({"shells": shells, "points": [[float(v) for v in c0]], "charges": [1.0], "eri": True, "classes": ["longK-eri", "eri", "nsh:2"], "cost": 3000})
    # concentric shells of different angular momentum and different coordinate type (pure s or p next to Cartesian d, f, g and
    # the reverse): the Cartesian functions contain the lower harmonics, so these blocks do not vanish
    for k in range(10 if tier == "quick" else 120):
        rng = bases.rng_for("C17", seed, tier, "concentric", k)
        lo, hi = [(0, 2), (1, 3), (0, 2), (2, 4), (1, 3), (0, 4)][k % 6]
        c0 = rng.normal(size=3)
        sh = [bases.rand_shell(rng, l, center=c0, emin=0.2, emax=5.0, Kmax=2, Mmax=2) for l in (lo, hi)]
        for s_ in sh:
            s_.pop("_cls")
        sh[0]["t"], sh[1]["t"] = ("p", "c") if k % 4 != 3 else ("c", "p")
        third = bases.rand_shell(rng, int(rng.integers(0, 2)), center=c0 + rng.normal(size=3) * 0.8, emin=0.2, emax=3.0, Kmax=2, Mmax=1)
        third.pop("_cls")
        shells = [sh[0], sh[1], third] if k % 2 == 0 else [sh[1], third, sh[0]]
        pts = [[float(v) for v in c0 + 0.4 * rng.normal(size=3)] for _ in range(2)]
        cases.append({"shells": shells, "points": pts, "charges": [1.0, 2.5], "eri": bool(k % 5 == 4 and hi <= 2),
                      "classes": ["concentric-mixed-types", "l:%d+%d" % (lo, hi), "eri" if (k % 5 == 4 and hi <= 2) else "1e", "nsh:3"], "cost": 30})
    # bridged pairs: two contracted shells A, B a few bohr apart whose tight primitives do not overlap while their diffuse
    # ones do, and a diffuse shell C in between that overlaps both. If the block (A, B) is lost or damaged (dropped by a
    # screening rule, taken from another pair, ...) the Gram matrix of {A, B, C} stops being semi-definite:
    # cos^2(A,C) + cos^2(B,C) > 1 cannot hold with cos(A,B) = 0. Primitives are listed diffuse-to-tight, tight-to-diffuse
    # or unsorted.
    for k in range(12 if tier == "quick" else 240):
        rng = bases.rng_for("C17", seed, tier, "bridge", k)
        eri = k % 4 == 3
        lab = [int(x) for x in rng.choice([0, 0, 1], size=2)]
        Rab = float(rng.uniform(1.8, 3.0))
        u = rng.normal(size=3)
        u /= np.linalg.norm(u)
        c0 = rng.normal(size=3)
        pair = []
        for j, l in enumerate(lab):
            a = float(rng.uniform(0.08, 0.2))
            e = [a, max(45.0, a * float(rng.uniform(300, 3000))), a * float(rng.uniform(5, 20))][: (2 if eri else int(rng.integers(2, 4)))]
            order = [list(range(len(e))), list(range(len(e)))[::-1], list(rng.permutation(len(e)))][k % 3]
            e = [e[i_] for i_ in order]
            kk = bases.rand_coeffs(rng, l, e, 1 if eri else int(rng.integers(1, 3)))
            # the diffuse primitive carries most of the weight
            kk = [[v * (3.0 if e[i_] == min(e) else 0.4) for v in row] for i_, row in enumerate(kk)]
            pair.append({"l": l, "c": [float(v) for v in c0 + (j - 0.5) * Rab * u], "e": e, "k": kk, "t": str(rng.choice(["c", "p"]))})
        mid = {"l": 0, "c": [float(v) for v in c0 + 0.05 * rng.normal(size=3)], "e": [float(rng.uniform(0.1, 0.3))], "k": [[1.0]], "t": "c"}
        shells = [pair[0], pair[1], mid] if k % 2 == 0 else [mid, pair[1], pair[0]]
        pts = [[float(v) for v in c0 + 0.3 * rng.normal(size=3)] for _ in range(2)]
        cases.append({"shells": shells, "points": pts, "charges": [1.0, 3.5], "eri": eri,
                      "classes": ["bridged-pair", "prims:" + ["diffuse-first", "tight-first", "unsorted"][k % 3], "eri" if eri else "1e", "nsh:3"], "cost": 200 if eri else 20})
    cases += bases.argrep_variants("C17", seed, tier, cases, 6, ok=lambda c: "shells" in c and c.get("kind") in (None, "whole", "kernel", "perm", "real"))  # constructor arguments in other in-memory representations
    return cases


def run_case(case):
    from gbasis.integrals.electron_repulsion import electron_repulsion_integral
    from gbasis.integrals.kinetic_energy import kinetic_energy_integral
    from gbasis.integrals.overlap import overlap_integral
    from gbasis.integrals.point_charge import point_charge_integral

    shells = case["shells"]
    viols, errs = [], {}
    evals = 0

    def psd(A, name, tol, sign=1.0):
        nonlocal evals
        evals += 1
        asym = float(np.abs(A - A.T).max())
        sc = float(np.abs(A).max()) + 1e-300
        errs[name + "_asym"] = max(errs.get(name + "_asym", 0.0), asym / sc)
        if asym > tol * sc + 1e-10 * (1 + amax):
            viols.append(cm.viol("%s is not symmetric (%.3e of its largest element, allowance %.0e)" % (name, asym / sc, tol), name + "_symmetric", asym / sc, tol))
        w = np.linalg.eigvalsh(sign * 0.5 * (A + A.T))
        lam = float(w.max())
        neg = float(-w.min()) / (abs(lam) + 1e-300)
        errs[name + "_neg_eig"] = max(errs.get(name + "_neg_eig", 0.0), max(neg, 0.0))
        if not neg <= tol:
            viols.append(cm.viol("%s has an eigenvalue of the wrong sign: %.3e of the largest (bound %.0e)" % (name, neg, tol), name + "_definite", neg, tol))

    amax = max(max(s["e"]) for s in shells)
    S = cm.call(overlap_integral, cm.build(shells))
    if isinstance(S, cm.Raised):
        viols.append(cm.unexpected(S, "overlap_integral"))
    else:
        psd(S, "overlap", 1e-9)
        m = float(np.abs(S).max())
        errs["overlap_max_abs_minus_1"] = max(m - 1.0, 0.0)
        evals += 1
        if not m <= 1 + 1e-9:
            viols.append(cm.viol("an overlap element has magnitude %.12f > 1" % m, "overlap_bound", m - 1, 1e-9))
    T = cm.call(kinetic_energy_integral, cm.build(shells))
    if isinstance(T, cm.Raised):
        viols.append(cm.unexpected(T, "kinetic_energy_integral"))
    else:
        psd(T, "kinetic", 1e-9)
    pts = np.array(case["points"], dtype=float).reshape(-1, 3)
    q = np.array(case["charges"], dtype=float)
    V = cm.call(point_charge_integral, cm.build(shells), pts, q)
    if isinstance(V, cm.Raised):
        viols.append(cm.unexpected(V, "point_charge_integral"))
    else:
        for k in range(V.shape[2]):
            psd(V[:, :, k], "point_charge", 1e-9, sign=-1.0)
    if case["eri"]:
        E = cm.call(electron_repulsion_integral, cm.build(shells), notation="chemist")
        if isinstance(E, cm.Raised):
            viols.append(cm.unexpected(E, "electron_repulsion_integral"))
        else:
            n = E.shape[0]
            G = E.reshape(n * n, n * n)
            psd(G, "eri_matrix", 1e-6)
            dg = G.diagonal()
            sc = float(np.abs(dg).max()) + 1e-300
            evals += 1
            errs["eri_diag_neg"] = max(errs.get("eri_diag_neg", 0.0), max(float(-dg.min()) / sc, 0.0))
            if not float(-dg.min()) <= 1e-6 * sc:
                viols.append(cm.viol("(ab|ab) = %.3e is negative beyond rounding" % dg.min(), "eri_diag", float(-dg.min()) / sc, 1e-6))
            d = np.clip(dg, 0, None)
            # allowance of the statement: violations below 1e-6 of the largest element (here: of its square)
            bound = np.outer(d, d) + 1e-6 * sc ** 2
            exc = G ** 2 - bound
            evals += 1
            worst = float(exc.max())
            errs["schwarz_excess"] = max(errs.get("schwarz_excess", 0.0), max(worst, 0.0) / sc ** 2)
            if worst > 0:
                at = np.unravel_index(int(np.argmax(exc)), exc.shape)
                viols.append(cm.viol("(ab|cd)^2 = %.6e exceeds (ab|ab)(cd|cd) = %.6e" % (G[at] ** 2, d[at[0]] * d[at[1]]), "schwarz", worst / sc ** 2, 0.0))
    nontrivial = len(shells) >= 2 and (not case["eri"] or sum(s["l"] for s in shells) >= 1)
    return {"evals": evals, "nontrivial": bool(nontrivial), "classes": case["classes"], "errs": errs, "violations": viols[:25]}
