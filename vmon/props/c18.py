"""C18 basis-set import: parsers return exactly the shells written; make_contractions; from_pyscf."""
import os
import tempfile

import math

import numpy as np

from vmon.gen import bases
from vmon.props import common as cm

ID = "C18"
OWNS = ("C18",)
RULE = (
    "the generator is the specification: a random basis set (1-5 elements with one- and two-letter symbols, 1-8 shells "
    "each, l from s to k, 1-10 primitives, 1-6 columns, SP shells) is written in the dialect of the shipped data files "
    "(NWChem: '#' comments, BASIS line, 'El  S|SP', rows, END; Gaussian94: '!' comments, 'El 0', 'L n 1.00', rows, "
    "'****') with plain / leading-dot / E / D number formats and 0, 1, 2 or many lines before the first element; the "
    "parser output is compared, as the flattened sequence of (element, l, exponents, one coefficient column) in file "
    "order, with float(printed text) exactly (so SP splitting and merging of equal-exponent Gaussian94 shells cannot "
    "alarm); hostile class: consecutive same-l Gaussian94 shells whose exponents differ by 1e-6..1e-9 relative. "
    "make_contractions: atom k's shells at coords[k], icenter k, atom order, requested coordinate types given as "
    "string / list / tuple, all four arguments unchanged (digest monitor), second call with the same objects gives the "
    "same basis; from_pyscf with a duck-typed Mole. distinct = case digest; non-trivial = >= 2 elements or an SP/"
    "generalized shell, and a molecule with a repeated element."
)
FLOOR = {"quick": 25, "thorough": 100}
DECIDING = ["eval:parse_nwchem", "eval:parse_gbs", "eval:make_contractions", "eval:from_pyscf"]
ASSUMPTIONS = ["the file dialects are those of the data files shipped in /repo/tests (Basis Set Exchange output)"]

ELEMENTS = ["H", "He", "Li", "C", "N", "O", "F", "Ne", "Na", "Cl", "Ar", "K", "Fe", "Zn", "U", "W", "Xe", "B", "P", "S"]
LET = "spdfghik"


def fmt_num(x, style, rng=None):
    if style == "plain":
        s = "%.8f" % x
    elif style == "dot":
        s = "%.8f" % x
        if s.startswith("0."):
            s = s[1:]
        elif s.startswith("-0."):
            s = "-" + s[2:]
    elif style == "E":
        s = "%.10E" % x
    elif style == "D":
        s = ("%.10E" % x).replace("E", "D")
    elif style == "Dv":
        # other legal spellings of a Fortran D number: exponent without sign or with one digit (D00, D0, D+0, D-1), a
        # mantissa that ends with the decimal point (1.D+00); which spelling depends on the digits of the number itself
        if x == 0:
            return "0.D0"
        e = int(math.floor(math.log10(abs(x))))
        m = x / 10.0 ** e
        ms = "%.9f" % m
        v = int(abs(x) * 7919) % 4
        ex = [("D%02d" % e) if e >= 0 else ("D-%02d" % -e), "D%d" % e, "D%+d" % e, "D%+03d" % e][v]
        if v >= 2 and ms.rstrip("0").endswith("."):
            ms = ms.rstrip("0")
        s = ms + ex
    else:
        s = "%.7f" % x
    return s


def gen_basisset(rng, tier):
    nel = int(rng.integers(1, 6))
    els = [ELEMENTS[i] for i in rng.permutation(len(ELEMENTS))[:nel]]
    out = []
    for el in els:
        nsh = int(rng.integers(1, 9))
        shells = []
        for _ in range(nsh):
            K = int(rng.integers(1, 11))
            if rng.random() < 0.2:
                kind = "SP"
                ls = [0, 1]
                M = 2
            else:
                kind = "L"
                l = int(rng.choice([0, 0, 1, 1, 2, 2, 3, 4, 5, 6, 7]))
                ls = [l]
                M = int(rng.choice([1, 1, 1, 2, 3, 4, 5, 6]))
            exps = np.sort(np.exp(rng.uniform(np.log(0.02), np.log(1e5), size=K)))[::-1]
            if not shells and out and rng.random() < 0.25:
                # the first block of an element repeats the LAST block of the element before it (same letter, same exponents):
                # nothing may be merged across the element boundary
                prev_ = out[-1]["shells"][-1]
                kind, ls = prev_["kind"], list(prev_["ls"])
                M = 2 if kind == "SP" else M
                exps = np.array(prev_["e"])
                K = len(exps)
            elif rng.random() < 0.15 and K >= 2:
                exps = exps[rng.permutation(K)]  # primitives listed in no particular order
            if shells and rng.random() < 0.2:
                # the block repeats the exponents of the block before it (P then SP, SP then P, D then D ...): blocks of one
                # angular momentum on identical exponents are what the Gaussian94 reader merges, everything else stays apart
                exps = np.array(shells[-1]["e"])
                K = len(exps)
            coeffs = rng.normal(size=(K, M))
            coeffs[np.abs(coeffs) < 1e-3] = 0.5
            shells.append({"kind": kind, "ls": ls, "e": [float(x) for x in exps], "k": [[float(v) for v in r] for r in coeffs]})
        out.append({"el": el, "shells": shells})
    return out


def write_nwchem(bs, rng, header, style_e, style_c, inner=False):
    lines = []
    if header == 1:
        lines.append('BASIS "ao basis" PRINT')
    elif header == 2:
        lines += ["# generated basis", 'BASIS "ao basis" PRINT']
    elif header >= 3:
        lines += ["#----------------------------------------------------------------------", "# Basis Set Exchange", "#   Basis set: generated",
                  "#----------------------------------------------------------------------", "", "", 'BASIS "ao basis" PRINT']
    expect = {}
    for elx in bs:
        el = elx["el"]
        if header >= 1 and rng.random() < 0.7:
            lines.append("#BASIS SET: (generated) -> [generated]")
        for sh in elx["shells"]:
            lab = "SP" if sh["kind"] == "SP" else LET[sh["ls"][0]].upper()
            lines.append("%s    %s" % (el, lab))
            etxt, ctxt = [], []
            for e, row in zip(sh["e"], sh["k"]):
                if inner and rng.random() < 0.15:
                    lines.append("# comment inside a primitive block")
                et = fmt_num(e, style_e)
                ct = [fmt_num(c, style_c) for c in row]
                lines.append("      %s      %s" % (et, "      ".join(ct)))
                etxt.append(float(et.replace("D", "E")))
                ctxt.append([float(c.replace("D", "E")) for c in ct])
            ctxt = np.array(ctxt)
            if sh["kind"] == "SP":
                for i, l in enumerate(sh["ls"]):
                    expect.setdefault(el, []).append((l, etxt, list(ctxt[:, i])))
            else:
                for m in range(ctxt.shape[1]):
                    expect.setdefault(el, []).append((sh["ls"][0], etxt, list(ctxt[:, m])))
    lines.append("END")
    return "\n".join(lines) + "\n", expect


def write_gbs(bs, rng, header, style_e, style_c, near_equal=None, inner=False):
    lines = []
    if header == 1:
        lines.append("! generated basis")
    elif header == 2:
        lines += ["! generated basis", ""]
    elif header >= 3:
        lines += ["!----------------------------------------------------------------------", "! Basis Set Exchange", "!   Basis set: generated",
                  "!----------------------------------------------------------------------", "", ""]
    expect = {}
    for elx in bs:
        el = elx["el"]
        lines.append("%s     0" % el)
        for sh in elx["shells"]:
            K = len(sh["e"])
            if sh["kind"] == "SP":
                blocks = [("SP", sh["e"], sh["k"])]
            else:
                M = len(sh["k"][0])
                blocks = [(LET[sh["ls"][0]].upper(), sh["e"], [[r[m]] for r in sh["k"]]) for m in range(M)]
            for lab, es, ks in blocks:
                lines.append("%s   %d   1.00" % (lab, K))
                etxt, ctxt = [], []
                for e, row in zip(es, ks):
                    if inner and rng.random() < 0.15:
                        lines.append("! comment inside a primitive block" if rng.random() < 0.7 else "")
                    et = fmt_num(e, style_e)
                    ct = [fmt_num(c, style_c) for c in row]
                    lines.append("      %s      %s" % (et, "      ".join(ct)))
                    etxt.append(float(et.replace("D", "E")))
                    ctxt.append([float(c.replace("D", "E")) for c in ct])
                ctxt = np.array(ctxt)
                if lab == "SP":
                    for i, l in enumerate((0, 1)):
                        expect.setdefault(el, []).append((l, etxt, list(ctxt[:, i])))
                else:
                    expect.setdefault(el, []).append((LET.index(lab.lower()), etxt, list(ctxt[:, 0])))
        lines.append("****")
    return "\n".join(lines) + "\n", expect


def flatten(parsed_el):
    out = []
    for ang, exps, coeffs in parsed_el:
        c = np.asarray(coeffs, dtype=float)
        if c.ndim == 1:
            c = c[:, None]
        for m in range(c.shape[1]):
            out.append((int(ang), [float(x) for x in np.asarray(exps, dtype=float)], [float(x) for x in c[:, m]]))
    return out


def compare_parsed(parsed, expect, what, viols, header):
    n = 0
    if isinstance(parsed, cm.Raised):
        viols.append(cm.viol("%s raised %s: %s (%d lines before the first element)" % (what, parsed.type, parsed.msg, header), "parse_exception", header=header, exc_type=parsed.type))
        return 1
    if not isinstance(parsed, dict):
        viols.append(cm.viol("%s returned %s" % (what, type(parsed).__name__), "parse_type"))
        return 1
    if list(parsed.keys()) != list(expect.keys()):
        viols.append(cm.viol("%s: elements returned %s, written %s (%d lines before the first element)" % (what, list(parsed.keys())[:8], list(expect.keys()), header),
                             "parse_elements", header=header))
    for el, exp in expect.items():
        if el not in parsed:
            continue
        n += 1
        try:
            got = flatten(parsed[el])
        except Exception as exc:  # noqa: BLE001
            viols.append(cm.viol("%s: entry for %s is not a list of (l, exps, coeffs): %r" % (what, el, exc), "parse_structure", header=header))
            continue
        if len(got) != len(exp):
            viols.append(cm.viol("%s: %s has %d contracted functions (l, column) but %d were written (%d lines before the first element)" % (what, el, len(got), len(exp), header),
                                 "parse_shell_count", header=header, first_missing=(got[:1] != exp[:1])))
            continue
        for i, (g, x) in enumerate(zip(got, exp)):
            if g[0] != x[0]:
                viols.append(cm.viol("%s: %s shell %d has l=%d, written l=%d" % (what, el, i, g[0], x[0]), "parse_angmom", header=header))
                break
            if g[1] != x[1]:
                rel = max(abs(a - b) / abs(b) for a, b in zip(g[1], x[1])) if len(g[1]) == len(x[1]) else None
                viols.append(cm.viol("%s: %s function %d (l=%d): exponents returned differ from the ones written (max relative difference %s)" % (what, el, i, g[0], rel),
                                     "parse_exponents", header=header, rel=rel))
                break
            if g[2] != x[2]:
                viols.append(cm.viol("%s: %s function %d (l=%d): coefficient column differs from the one written" % (what, el, i, g[0]), "parse_coeffs", header=header))
                break
    return n


def gen_cases(tier, seed):
    n = 240 if tier == "quick" else 3000
    cases = []
    for i in range(n):
        cases.append({"i": i, "seed": [seed, tier, i], "header": [0, 1, 2, 6][i % 4], "fmt": ["nwchem", "gbs"][(i // 4) % 2],
                      "style_e": ["plain", "E", "D", "dot", "Dv"][(i // 8) % 5], "style_c": ["plain", "dot", "E", "D", "Dv"][(i // 2) % 5],
                      "near_equal": (i % 12 == 5), "inner": (i % 3 == 1), "classes": ["hdr:%d" % [0, 1, 2, 6][i % 4], "fmt:" + ["nwchem", "gbs"][(i // 4) % 2]], "cost": 1})
    return cases


class Mole:  # duck-typed pyscf.gto.mole.Mole (class name is what from_pyscf checks)
    def __init__(self, atom, basis, cart):
        self._atom, self._basis, self.cart = atom, basis, cart


def run_case(case):
    from gbasis.parsers import make_contractions, parse_gbs, parse_nwchem
    from gbasis.wrappers import from_pyscf

    rng = bases.rng_for("C18", *case["seed"])
    viols, errs = [], {}
    evals = 0
    classes = list(case["classes"])
    bs = gen_basisset(rng, None)
    header = case["header"]
    if case["fmt"] == "nwchem":
        text, expect = write_nwchem(bs, rng, header, case["style_e"], case["style_c"], inner=case.get("inner", False))
        parser, what = parse_nwchem, "parse_nwchem"
    else:
        if case["near_equal"]:
            # hostile: two consecutive same-l single-column shells whose exponents differ by 1e-6..1e-9 relative
            el = bs[0]
            K = int(rng.integers(1, 4))
            e1 = np.sort(np.exp(rng.uniform(np.log(0.1), np.log(100), size=K)))[::-1]
            rel = 10.0 ** -float(rng.integers(6, 9))
            e2 = e1 * (1 + rel)
            l = int(rng.integers(0, 3))
            el["shells"] = [{"kind": "L", "ls": [l], "e": [float(x) for x in e1], "k": [[float(rng.normal() + 2)] for _ in range(K)]},
                            {"kind": "L", "ls": [l], "e": [float(x) for x in e2], "k": [[float(rng.normal() + 2)] for _ in range(K)]}] + el["shells"][:2]
            classes.append("gbs:near-equal-exponents")
            case = dict(case, style_e="E")
        text, expect = write_gbs(bs, rng, header, case["style_e"], case["style_c"], inner=case.get("inner", False))
        parser, what = parse_gbs, "parse_gbs"
    if any(sh["kind"] == "SP" for e in bs for sh in e["shells"]):
        classes.append("shell:SP")
    if any(len(sh["k"][0]) > 1 and sh["kind"] != "SP" for e in bs for sh in e["shells"]):
        classes.append("shell:generalized")
    classes += ["nel:%d" % len(bs), "num:%s/%s" % (case["style_e"], case["style_c"])] + (["comments-inside-blocks"] if case.get("inner") else [])
    # the SAME path is rewritten with a different basis set for every case of this worker process (a result that
    # depends on anything but the file content - a cache keyed on the path, say - shows as a mismatch)
    path = os.path.join(os.environ.get("TMPDIR", "/tmp"), "vmon-c18-%d.%s" % (os.getpid(), case["fmt"]))
    ending = ["as-written", "as-written", "no-final-newline", "as-written", "fragment-without-terminator"][case["i"] % 5]
    if ending == "no-final-newline":
        text = text.rstrip("\n")  # the file ends right after END / ****
    elif ending == "fragment-without-terminator":
        # the closing END (NWChem) or last **** (Gaussian94) line and the final newline are missing. Such a fragment is not
        # a well-formed file: the reader may reject it, but if it answers, the answer must be what is written
        lines_ = text.rstrip("\n").split("\n")
        if lines_ and lines_[-1].strip() in ("END", "****"):
            lines_ = lines_[:-1]
        text = "\n".join(lines_)
    classes.append("file-end:" + ending)
    try:
        with open(path, "w") as fh:
            fh.write(text)
        parsed = cm.call(parser, path)
        evals += 1
        if ending == "fragment-without-terminator" and isinstance(parsed, cm.Raised):
            classes.append("fragment:rejected")
            return {"evals": evals, "nontrivial": True, "classes": classes, "errs": errs, "violations": viols}
        compare_parsed(parsed, expect, what, viols, header)
        # the caller may do what it likes with the returned data: a second call must again return what the file says
        if isinstance(parsed, dict) and parsed:
            k0 = next(iter(parsed))
            try:
                if parsed[k0]:
                    arr = parsed[k0][0][1]
                    if isinstance(arr, np.ndarray) and arr.flags.writeable:
                        arr *= 2.0
                    parsed[k0].pop()
                parsed["Xx"] = []
            except Exception:  # noqa: BLE001
                pass
        again = cm.call(parser, path)
        evals += 1
        nv = len(viols)
        compare_parsed(again, expect, what + " (second call, after the caller modified the first result)", viols, header)
        for v in viols[nv:]:
            v["qty"] = "parse_repeat:" + v["qty"]
    finally:
        if os.path.exists(path):
            os.remove(path)
    for v in viols:
        v["file_head"] = text[:400]
        v["fmt"] = case["fmt"]
    # ---- make_contractions on the intended content (independent of the parser under test)
    bd = {}
    for el, fl in expect.items():
        # documented format: (l, exps ndarray, coeffs ndarray K x M); one entry per written function column
        bd[el] = [(l, np.array(e), np.array(c)[:, None]) for (l, e, c) in fl]
    els = list(expect.keys())
    nat = int(rng.integers(1, 6))
    atoms = [els[int(rng.integers(len(els)))] for _ in range(nat)]
    if nat >= 2 and rng.random() < 0.7:
        atoms[1] = atoms[0]
        classes.append("mol:repeated-element")
    if nat >= 3 and len(els) >= 2 and rng.random() < 0.6:
        other = [e for e in els if e != atoms[0]][0]
        atoms[1], atoms[2] = other, atoms[0]  # the same element on non-adjacent atoms (H O H)
        classes.append("mol:repeated-non-adjacent")
    coords = rng.normal(size=(nat, 3)) * 2
    nshell = sum(len(bd[a]) for a in atoms)
    want_types = [str(rng.choice(["cartesian", "spherical", "c", "p"])) for _ in range(nshell)]
    norm = {"c": "cartesian", "p": "spherical", "cartesian": "cartesian", "spherical": "spherical"}
    for mode in ("str", "list", "tuple"):
        if mode == "str":
            ct = str(rng.choice(["cartesian", "spherical", "c", "p"]))
            want = [norm[ct]] * nshell
        elif mode == "list":
            ct = list(want_types)
            want = [norm[t] for t in want_types]
        else:
            ct = tuple(want_types)
            want = [norm[t] for t in want_types]
        atoms_arg = list(atoms) if rng.random() < 0.5 else tuple(atoms)
        snap = (repr(ct), repr(atoms_arg), coords.copy(), {k: [(l, e.copy(), c.copy()) for l, e, c in v] for k, v in bd.items()})
        first = None
        for rep in range(2):
            out = cm.call(make_contractions, bd, atoms_arg, coords, ct)
            evals += 1
            if isinstance(out, cm.Raised):
                viols.append(cm.viol("make_contractions(coord_types as %s, call %d) raised %s: %s" % (mode, rep + 1, out.type, out.msg),
                                     "make_contractions_exception", mode=mode, call=rep + 1, exc_type=out.type))
                break
            ok = isinstance(out, tuple) and len(out) == nshell
            if ok:
                k = 0
                for ia, a in enumerate(atoms):
                    for (l, e, c) in bd[a]:
                        s = out[k]
                        if not (s.angmom == l and np.array_equal(s.exps, e) and np.array_equal(s.coeffs, c) and np.array_equal(s.coord, coords[ia])
                                and s.icenter == ia and s.coord_type == want[k]):
                            ok = False
                            viols.append(cm.viol("make_contractions(coord_types as %s): shell %d of atom %d (%s) has l=%s type=%s icenter=%s coord=%s; expected l=%d type=%s icenter=%d" % (
                                mode, k, ia, a, s.angmom, s.coord_type, s.icenter, s.coord.tolist(), l, want[k], ia), "make_contractions_content", mode=mode))
                            break
                        k += 1
                    if not ok:
                        break
            else:
                viols.append(cm.viol("make_contractions returned %s of length %s, expected a tuple of %d shells" % (type(out).__name__, len(out) if hasattr(out, "__len__") else "?", nshell),
                                     "make_contractions_shape", mode=mode))
            if rep == 0:
                first = out
            elif ok and first is not None and not isinstance(first, cm.Raised):
                from vmon.monitors.install import digest

                if digest([vars(s) for s in first]) != digest([vars(s) for s in out]):
                    viols.append(cm.viol("second make_contractions call with the same argument objects returned a different basis", "make_contractions_repeat", mode=mode))
        changed = []
        if repr(ct) != snap[0]:
            changed.append("coord_types %s -> %s" % (snap[0][:60], repr(ct)[:60]))
        if repr(atoms_arg) != snap[1]:
            changed.append("atoms")
        if not np.array_equal(coords, snap[2]):
            changed.append("coords")
        for kk, v in bd.items():
            for (l, e, c), (l0, e0, c0) in zip(v, snap[3][kk]):
                if l != l0 or not np.array_equal(e, e0) or not np.array_equal(c, c0):
                    changed.append("basis_dict[%s]" % kk)
        if len(set(changed)):
            viols.append(cm.viol("make_contractions altered its arguments: %s" % sorted(set(changed)), "make_contractions_mutation", mode=mode))
    # ---- from_pyscf with a duck-typed Mole
    cart = bool(rng.random() < 0.5)
    atom = [(a, tuple(float(x) for x in coords[i])) for i, a in enumerate(atoms)]
    pb = {}
    for el in set(atoms):
        # pyscf layout: [l, [exp, c1, c2, ...], [exp, c1, ...], ...]; use the generalized shells as generated
        shells = []
        for elx in bs:
            if elx["el"] != el:
                continue
            for sh in elx["shells"]:
                if sh["kind"] == "SP":
                    for i, l in enumerate(sh["ls"]):
                        shells.append([l] + [[e, row[i]] for e, row in zip(sh["e"], sh["k"])])
                else:
                    shells.append([sh["ls"][0]] + [[e] + list(row) for e, row in zip(sh["e"], sh["k"])])
        pb[el] = shells
    mol = Mole(atom, pb, cart)
    out = cm.call(from_pyscf, mol)
    evals += 1
    if isinstance(out, cm.Raised):
        viols.append(cm.unexpected(out, "from_pyscf"))
    else:
        k = 0
        ok = isinstance(out, tuple)
        if ok:
            for ia, (a, xyz) in enumerate(atom):
                for sh in pb[a]:
                    if k >= len(out):
                        ok = False
                        break
                    s = out[k]
                    ec = np.array(sh[1:], dtype=float)
                    if not (s.angmom == sh[0] and np.array_equal(s.exps, ec[:, 0]) and np.array_equal(s.coeffs, ec[:, 1:]) and np.array_equal(s.coord, np.array(xyz))
                            and s.coord_type == ("cartesian" if cart else "spherical")):
                        ok = False
                        viols.append(cm.viol("from_pyscf: shell %d of atom %d (%s) does not preserve the molecule's data" % (k, ia, a), "from_pyscf_content"))
                        break
                    k += 1
                if not ok:
                    break
            if ok and k != len(out):
                viols.append(cm.viol("from_pyscf returned %d shells, molecule has %d" % (len(out), k), "from_pyscf_count"))
        else:
            viols.append(cm.viol("from_pyscf returned %s" % type(out).__name__, "from_pyscf_type"))
    bad = cm.call(from_pyscf, object())
    evals += 1
    if not isinstance(bad, cm.Raised):
        viols.append(cm.viol("from_pyscf accepted an object that is not a Mole", "from_pyscf_reject"))
    nontrivial = (len(bs) >= 2 or "shell:SP" in classes or "shell:generalized" in classes)
    return {"evals": evals, "nontrivial": bool(nontrivial), "classes": classes, "errs": errs, "violations": viols}


def classify(case, v):
    q = v.get("qty", "")
    if q in ("parse_exception", "parse_elements", "parse_shell_count", "parse_structure", "parse_exponents", "parse_angmom", "parse_coeffs") and v.get("header") in (0, 1):
        if q in ("parse_exponents", "parse_angmom", "parse_coeffs") and v.get("header") == 1:
            pass
        return "C18/preamble-handling-0-or-1-header-lines"
    if q == "parse_exponents" and v.get("fmt") == "gbs" and v.get("rel") is not None and v["rel"] <= 1.1e-5:
        return "C18/gbs-near-equal-exponents-merged"
    if q == "make_contractions_mutation" and v.get("mode") == "list":
        return "C18/make_contractions-consumes-coord_types-list"
    if q == "make_contractions_exception" and ((v.get("mode") == "tuple" and v.get("exc_type") == "AttributeError") or (v.get("mode") == "list" and v.get("call") == 2)):
        return "C18/make_contractions-consumes-coord_types-list"
    return None


def summarize(cases, results, counts, lists, tier):
    return {"header_variants": [0, 1, 2, 6], "formats": ["nwchem", "gbs"], "number_styles": ["plain", "dot", "E", "D", "Dv (D00, D0, D+0, 1.D+00)"]}
