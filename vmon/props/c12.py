"""C12 covariance under rigid motions r -> R r + d of the whole system."""
import itertools

import numpy as np

from vmon.gen import bases
from vmon.props import common as cm
from vmon.ref import rotrep

ID = "C12"
OWNS = ("C12",)
TOL = 1e-9
RULE = (
    "random bases (1-3 shells, l 0..4, generalized, cartesian and spherical; ERI cases l<=2, plus one g shell with an s or p shell in every sixteenth case) with points, charges, "
    "nuclei, moment origin and density matrix; the whole system is moved by r -> R r + d with R one of the 48 signed "
    "axis permutations (all 48 enumerated across a run; the law is an exact index permutation for Cartesian shells) or a "
    "random proper/improper orthogonal matrix, |d| up to 10 bohr; starting frames with all atoms on the x axis are "
    "included so that a y- or z-only defect shows. Every public function is observed on the system and on its image: "
    "values/densities/ESP/Laplacian/kinetic densities equal; integral arrays = D_shell(R) on every basis index (D from "
    "the reference model's polynomial expansion); momentum, gradients, force, dipole rotate as vectors; angular momentum "
    "as L' = det(R) R L + d x p'; Hessians and stress tensor as R . R^T; second moments as a tensor; for signed "
    "permutations arbitrary derivative orders / moment orders map by index permutation and sign. Bound 1e-9 of the array "
    "scale (1e-8 for quantities built from third and fourth derivatives, which amplify the rounding of the moved coordinates). non-trivial = a shell with l >= 1 and R not the identity."
)
FLOOR = {"quick": 30, "thorough": 120}
DECIDING = ["eval:overlap_integral", "eval:angular_momentum_integral", "eval:evaluate_basis", "eval:evaluate_ehrenfest_hessian", "eval:electron_repulsion_integral"]
ASSUMPTIONS = ["representation matrices from vmon/ref/rotrep.py (polynomial expansion), validated in the self-test against the reference evaluations"]


def signed_perms():
    out = []
    for perm in itertools.permutations(range(3)):
        for signs in itertools.product((1, -1), repeat=3):
            R = np.zeros((3, 3))
            for i in range(3):
                R[i, perm[i]] = signs[i]
            out.append(R)
    return out


def gen_cases(tier, seed):
    SP = signed_perms()
    n = 64 if tier == "quick" else 768
    cases = []
    nsp = 0
    for i in range(n):
        rng = bases.rng_for("C12", seed, tier, i)
        eri = i % 4 == 3
        nsh = int(rng.integers(1, 4))
        lmax = 2 if eri else 4
        ls = [int(x) for x in rng.integers(0, lmax + 1, size=nsh)]
        if not eri:
            ls[0] = 1 + i % 4
        if eri and sum((l + 1) * (l + 2) // 2 for l in ls) > 14:
            ls = ls[:2]
        if eri and i % 16 == 15:
            # one g shell in a repulsion array: the first angular momentum whose Cartesian components need more than
            # one kind of angular normalisation constant beyond the largest exponent's (xxyy against xxxy against xxxx)
            ls = [4, int(rng.integers(0, 2))] if (i // 16) % 2 == 0 else [int(rng.integers(0, 2)), 4]
        nsh = len(ls)
        pats = bases.type_patterns(nsh)
        tp = list(pats[(i // 2) % len(pats)])
        # centres 1e-8 bohr apart ("near") are not used: the motion rounds coordinates at 1e-16 x |d|, which perturbs such a
        # relative position by 1e-7 relative (an artefact of the moved input, not of the library)
        shells, classes = bases.rand_basis(rng, ls, types=tp, emin=0.05, emax_fn=lambda l: 30.0, Kmax=2, Mmax=2, scale=1.0,
                                           geom=str(rng.choice(["coincident", "collinear", "coplanar", "general", "axis-zero", "far"])))
        if eri and i % 16 == 15:
            # exponents of one decade: with a g shell that contracts 0.05 and 30 the repulsion integrals themselves lose
            # accuracy to the recursions' amplification (C04's known finding, there stated for l <= 3), which is not
            # what covariance is about
            for s_ in shells:
                s_["e"] = [float(rng.uniform(0.3, 3.0)) for _ in s_["e"]]
            classes = classes + ["eri-with-g-shell"]
        displaced = i % 4 == 1 and len(shells) >= 2
        if displaced:  # a finite-difference displaced copy; it is moved 20-80 bohr away from / towards the origin below
            dp, dcls = bases.displaced_pair(rng, shells[0]["l"], shells[1]["l"], emax=30.0)
            for k in (0, 1):
                shells[k]["c"] = dp[k]["c"]
            for s_ in shells[2:]:
                s_["c"] = [float(v) for v in np.array(dp[0]["c"]) + rng.normal(size=3)]
            classes = [c for c in classes if not c.startswith("geom:")] + dcls
        if i % 3 == 0:  # the frame every stored reference uses: atoms on the x axis
            for k, s in enumerate(shells):
                s["c"] = [float(0.9 * k), 0.0, 0.0]
            classes.append("frame:x-axis")
        if i % 4 != 1 and not (eri and i % 16 == 15):  # the g-shell repulsion cases get a general rotation: axis permutations map xxyy to yyzz, the same normalisation class
            spidx = (nsp + 7 * seed) % 48
            nsp += 1
            R = SP[spidx]
            rk = "signed-perm"
        else:
            Q = np.linalg.qr(rng.normal(size=(3, 3)))[0]
            if rng.random() < 0.5:
                Q[:, 0] *= -1
            R = Q
            rk = "random-O3"
        d = rng.normal(size=3) * float(rng.choice([0.0, 1.0, 5.0]))
        if displaced:
            # a translation that changes the distance from the origin by tens of bohr: a result that depends on where
            # the system sits (absolute coordinates entering a tolerance, say) cannot be covariant under it
            u = rng.normal(size=3)
            d = u / np.linalg.norm(u) * float(rng.uniform(20.0, 80.0))
        ntot = sum(bases.nfunc(s) for s in shells)
        dm, dcls = bases.rand_sym(rng, ntot, "indef" if i % 2 else "psd")
        # points: generic displacements (>= 0.1 bohr on every axis) from a centre, or exactly a centre; displacements of
        # 1e-8 are NOT used here: after the motion the coordinate rounding (1e-16 x |d|) would perturb such a relative
        # position by 1e-7 relative, which is an artefact of the moved input, not of the library
        pts = []
        for k in range(3):
            c = np.array(shells[int(rng.integers(len(shells)))]["c"])
            if k == 1 and not displaced:
                # (not for displaced copies: a point on one centre is 1e-6 bohr from the other, and the 20-80 bohr
                # translation rounds that relative position at the 1e-9 level - an artefact of the moved input)
                pts.append([float(v) for v in c])
            else:
                dv = rng.uniform(0.1, 1.5, size=3) * rng.choice([-1.0, 1.0], size=3)
                pts.append([float(v) for v in c + dv])
        cases.append({"shells": shells, "R": [[float(v) for v in r] for r in R], "d": [float(v) for v in d], "dm": dm, "points": pts,
                      "eri": eri, "spidx": int(spidx) if rk == "signed-perm" else -1,
                      "classes": classes + ["R:" + rk, "det:%+d" % int(round(np.linalg.det(R))), dcls, "types:" + "".join(tp)] + (["with-eri"] if eri else []),
                      "cost": 50 + (ntot ** 4 / 30 if eri else 0)})
    cases += bases.argrep_variants("C12", seed, tier, cases, 8, ok=lambda c: "shells" in c and c.get("kind") in (None, "whole", "kernel", "perm", "real"))  # constructor arguments in other in-memory representations
    return cases


def moved(shells, R, d):
    out = []
    for s in shells:
        out.append(dict(s, c=[float(v) for v in (R @ np.array(s["c"]) + d)]))
    return out


def run_case(case):
    from gbasis.evals import density as D
    from gbasis.evals import stress_tensor as ST
    from gbasis.evals.electrostatic_potential import electrostatic_potential
    from gbasis.evals.eval import evaluate_basis
    from gbasis.evals.eval_deriv import evaluate_deriv_basis
    from gbasis.integrals.angular_momentum import angular_momentum_integral
    from gbasis.integrals.electron_repulsion import electron_repulsion_integral
    from gbasis.integrals.kinetic_energy import kinetic_energy_integral
    from gbasis.integrals.moment import moment_integral
    from gbasis.integrals.momentum import momentum_integral
    from gbasis.integrals.nuclear_electron_attraction import nuclear_electron_attraction_integral
    from gbasis.integrals.overlap import overlap_integral
    from gbasis.integrals.point_charge import point_charge_integral

    shells = case["shells"]
    R = np.array(case["R"], dtype=float)
    d = np.array(case["d"], dtype=float)
    det = float(np.linalg.det(R))
    sh2 = moved(shells, R, d)
    rs = cm.rshells(shells)
    Dm = rotrep.basis_rep(rs, R)
    Dinv = np.linalg.inv(Dm)
    dm = np.array(case["dm"], dtype=float)
    dm2 = Dinv.T @ dm @ Dinv
    dm2 = 0.5 * (dm2 + dm2.T)
    pts = np.array(case["points"], dtype=float)
    pts2 = np.array([R @ p_ + d for p_ in pts])  # same expression as for the centres: a point on a centre stays exactly on it
    q = np.array([1.0, -2.0, 0.5])
    nuc = np.array([s["c"] for s in shells], dtype=float)
    nuc2 = np.array([R @ p_ + d for p_ in nuc])
    Z = np.arange(1.0, len(shells) + 1)
    origin = np.array([0.3, -0.2, 0.4])
    origin2 = R @ origin + d
    viols, errs = [], {}
    evals = 0
    signed = case["spidx"] >= 0

    def B(x):
        return cm.build(x)

    def cmp(got, want, what, qty, floor=0.0):
        nonlocal evals
        evals += 1
        for x in (got, want):
            if isinstance(x, cm.Raised):
                viols.append(cm.unexpected(x, what))
                return
        if got.shape != want.shape:
            viols.append(cm.viol("%s: shapes %s vs %s" % (what, got.shape, want.shape), qty + "_shape"))
            return
        if np.isnan(np.asarray(got, dtype=complex)).any() or np.isnan(np.asarray(want, dtype=complex)).any():
            # +-inf is a legitimate value (potential on a nucleus); NaN is not a value of any of these quantities
            viols.append(cm.viol("%s: the result contains NaN (original system: %s, moved system: %s)" % (
                what, bool(np.isnan(np.asarray(want, dtype=complex)).any()), bool(np.isnan(np.asarray(got, dtype=complex)).any())), qty + "_nan"))
            return
        fin = np.isfinite(want)
        sc = max(float(np.abs(want[fin]).max()) if fin.any() else 0.0, float(floor)) + 1e-300
        e = float(np.abs(got[fin] - want[fin]).max()) / sc if fin.any() else 0.0
        errs[qty] = max(errs.get(qty, 0.0), e)
        # quantities built from 3rd/4th derivatives amplify the 1e-16 rounding of the moved coordinates by alpha^2
        tol = 1e-8 if qty in ("force", "ehrenfest_hessian", "deriv_signed_perm", "deriv_density_signed_perm") else TOL
        if qty == "eri":
            # two evaluations of integrals whose own accuracy class is 1e-6 of the Schwarz scale (C04, including its recorded
            # recursion-amplification finding for contractions spanning 0.05..30): twice that bound, as in C11 (FA26)
            tol = 2e-6
        if not e <= tol:
            viols.append(cm.viol("%s: moved-system result differs from the transformation law by %.3e of the array scale" % (what, e), qty, e, TOL,
                                 R=case["R"], d=case["d"]))

    def two(a, k=2):
        """apply D to the first k axes"""
        for ax in range(k):
            a = np.moveaxis(np.tensordot(Dm, a, (1, ax)), 0, ax)
        return a

    def vec(a, axis):
        return np.moveaxis(np.tensordot(R, a, (1, axis)), 0, axis)

    call = cm.call
    # density family: the natural magnitude of each quantity is taken from the same function evaluated with the
    # positive semi-definite surrogate |gamma| = V |lambda| V^t (no cancellation between orbitals)
    w, Vv = np.linalg.eigh(dm)
    dma = (Vv * np.abs(w)) @ Vv.T
    dma = 0.5 * (dma + dma.T)

    _amax = {}

    def cond(n):
        """rounding-noise scale of a density-type quantity built from derivatives up to total order n:
        1e-6 * max_r sum_ij |gamma_ij| A_i A_j with A_i = max_{|p| <= n} |d^p phi_i(r)| (observed evaluations); with
        the tolerances 1e-9 / 1e-8 this admits an absolute error of 1e-15 / 1e-14 of the sum of term magnitudes, so
        that values which vanish by cancellation or symmetry are not judged on their noise."""
        if n not in _amax:
            A = 0.0
            for o in itertools.product(range(n + 1), repeat=3):
                if sum(o) <= n:
                    v = call(evaluate_deriv_basis, B(shells), pts, np.array(o))
                    if isinstance(v, np.ndarray):
                        A = np.maximum(A, np.abs(v))
            _amax[n] = 1e-6 * float(np.einsum("ij,in,jn->n", np.abs(dm), A, A).max()) if isinstance(A, np.ndarray) else 0.0
        return _amax[n]

    def mag(fn, *a, order=2, **k):
        x = call(fn, *a, **k)
        return max(float(np.abs(x).max()) if isinstance(x, np.ndarray) and x.size else 0.0, cond(order))

    # evaluations
    cmp(call(evaluate_basis, B(sh2), pts2), two(call(evaluate_basis, B(shells), pts), 1), "evaluate_basis", "eval")
    g1 = [call(evaluate_deriv_basis, B(shells), pts, np.eye(3, dtype=int)[m]) for m in range(3)]
    g2 = [call(evaluate_deriv_basis, B(sh2), pts2, np.eye(3, dtype=int)[m]) for m in range(3)]
    if not any(isinstance(x, cm.Raised) for x in g1 + g2):
        G1 = np.stack([Dm @ x for x in g1], axis=0)
        cmp(np.stack(g2, axis=0), vec(G1, 0), "evaluate_deriv_basis (gradient of every function)", "eval_gradient")
    else:
        viols.append(cm.unexpected([x for x in g1 + g2 if isinstance(x, cm.Raised)][0], "evaluate_deriv_basis"))
    # integrals
    cmp(call(overlap_integral, B(sh2)), two(call(overlap_integral, B(shells))), "overlap_integral", "overlap")
    cmp(call(kinetic_energy_integral, B(sh2)), two(call(kinetic_energy_integral, B(shells))), "kinetic_energy_integral", "kinetic")
    cmp(call(point_charge_integral, B(sh2), pts2, q), two(call(point_charge_integral, B(shells), pts, q)), "point_charge_integral", "point_charge")
    cmp(call(nuclear_electron_attraction_integral, B(sh2), nuc2, Z), two(call(nuclear_electron_attraction_integral, B(shells), nuc, Z)), "nuclear_electron_attraction_integral", "nuclear")
    P1 = call(momentum_integral, B(shells))
    P2 = call(momentum_integral, B(sh2))
    T1 = call(kinetic_energy_integral, B(shells))
    gfl = float(np.sqrt(2 * np.abs(np.diag(T1)).max())) if isinstance(T1, np.ndarray) else 1.0
    rfl = float(max(np.abs(nuc).max(), np.abs(nuc2).max()) + 1.0)
    if not isinstance(P1, cm.Raised):
        P1t = vec(two(P1), 2)
        cmp(P2, P1t, "momentum_integral (vector law)", "momentum", floor=gfl)
        L1 = call(angular_momentum_integral, B(shells))
        L2 = call(angular_momentum_integral, B(sh2))
        if not isinstance(L1, cm.Raised) and not isinstance(P2, cm.Raised):
            want = det * vec(two(L1), 2) + np.cross(d[None, None, :], P2)
            cmp(L2, want, "angular_momentum_integral (L' = det(R) R L + d x p')", "angular_momentum", floor=gfl * rfl)
    else:
        viols.append(cm.unexpected(P1, "momentum_integral"))
    # moments about the moved origin: dipole vector, second-moment tensor
    o1 = np.array([[1, 0, 0], [0, 1, 0], [0, 0, 1]])
    cmp(call(moment_integral, B(sh2), origin2, o1), vec(two(call(moment_integral, B(shells), origin, o1)), 2), "moment_integral (dipole about the moved origin)", "dipole")
    o2 = np.array([[2, 0, 0], [1, 1, 0], [1, 0, 1], [0, 2, 0], [0, 1, 1], [0, 0, 2]])
    idx2 = {(0, 0): 0, (0, 1): 1, (1, 0): 1, (0, 2): 2, (2, 0): 2, (1, 1): 3, (1, 2): 4, (2, 1): 4, (2, 2): 5}
    Q1, Q2 = call(moment_integral, B(shells), origin, o2), call(moment_integral, B(sh2), origin2, o2)
    if not isinstance(Q1, cm.Raised) and not isinstance(Q2, cm.Raised):
        Q1 = two(Q1)
        full = np.zeros(Q1.shape[:2] + (3, 3))
        for (a, b), k in idx2.items():
            full[:, :, a, b] = Q1[:, :, k]
        rot = np.einsum("ka,lb,ijab->ijkl", R, R, full)
        want = np.stack([rot[:, :, a, b] for (a, b) in ((0, 0), (0, 1), (0, 2), (1, 1), (1, 2), (2, 2))], axis=2)
        cmp(Q2, want, "moment_integral (second moments as a tensor)", "second_moments")
    if signed:
        perm = [int(np.argmax(np.abs(R[i]))) for i in range(3)]  # new axis i <- old axis perm[i]
        sg = [R[i, perm[i]] for i in range(3)]
        for o in ([3, 1, 0], [0, 2, 4], [1, 1, 1]):
            o_old = np.array(o)
            o_new = np.zeros(3, dtype=int)
            for i in range(3):
                o_new[i] = o_old[perm[i]]
            sign = float(np.prod([sg[i] ** int(o_new[i]) for i in range(3)]))
            cmp(call(moment_integral, B(sh2), origin2, o_new[None, :]), sign * two(call(moment_integral, B(shells), origin, o_old[None, :])),
                "moment_integral orders %s under a signed axis permutation" % o, "moment_signed_perm")
            cmp(call(evaluate_deriv_basis, B(sh2), pts2, o_new), sign * two(call(evaluate_deriv_basis, B(shells), pts, o_old), 1),
                "evaluate_deriv_basis orders %s under a signed axis permutation" % o, "deriv_signed_perm")
            cmp(call(D.evaluate_deriv_density, o_new, dm2, B(sh2), pts2), sign * call(D.evaluate_deriv_density, o_old, dm, B(shells), pts),
                "evaluate_deriv_density orders %s under a signed axis permutation" % o, "deriv_density_signed_perm",
                floor=mag(D.evaluate_deriv_density, o_old, dma, B(shells), pts, order=int(sum(o))))
    # density family
    cmp(call(D.evaluate_density, dm2, B(sh2), pts2, threshold=1e30), call(D.evaluate_density, dm, B(shells), pts, threshold=1e30), "evaluate_density", "density",
        floor=mag(D.evaluate_density, dma, B(shells), pts, threshold=1e30, order=0))
    cmp(call(D.evaluate_density_laplacian, dm2, B(sh2), pts2), call(D.evaluate_density_laplacian, dm, B(shells), pts), "evaluate_density_laplacian", "laplacian",
        floor=mag(D.evaluate_density_laplacian, dma, B(shells), pts))
    cmp(call(D.evaluate_posdef_kinetic_energy_density, dm2, B(sh2), pts2, threshold=1e30), call(D.evaluate_posdef_kinetic_energy_density, dm, B(shells), pts, threshold=1e30),
        "evaluate_posdef_kinetic_energy_density", "posdef_ked", floor=mag(D.evaluate_posdef_kinetic_energy_density, dma, B(shells), pts, threshold=1e30))
    g = call(D.evaluate_density_gradient, dm, B(shells), pts)
    if not isinstance(g, cm.Raised):
        cmp(call(D.evaluate_density_gradient, dm2, B(sh2), pts2), g @ R.T, "evaluate_density_gradient (vector law)", "gradient",
            floor=mag(D.evaluate_density_gradient, dma, B(shells), pts, order=1))
    H = call(D.evaluate_density_hessian, dm, B(shells), pts)
    if not isinstance(H, cm.Raised):
        cmp(call(D.evaluate_density_hessian, dm2, B(sh2), pts2), np.einsum("ka,lb,nab->nkl", R, R, H), "evaluate_density_hessian (tensor law)", "hessian",
            floor=mag(D.evaluate_density_hessian, dma, B(shells), pts))
    cmp(call(electrostatic_potential, B(sh2), dm2, pts2 + R @ np.array([0.05, 0.02, 0.01]), nuc2, Z),
        call(electrostatic_potential, B(shells), dm, pts + np.array([0.05, 0.02, 0.01]), nuc, Z), "electrostatic_potential", "esp")
    # grid points exactly on the nuclei (they stay exactly on them in the moved frame: same expression), a distance threshold
    # far below any other point-nucleus distance: each nucleus is left out at its own point in both frames, the values are
    # finite and must agree
    # (only nuclei that have no other nucleus closer than 0.05 bohr without coinciding with it: Z/d of a neighbour 1e-6 bohr
    # away is conditioned like 1/d and the 1e-16 rounding of the moved coordinates would be what is measured)
    dn = np.sqrt(((nuc[:, None, :] - nuc[None, :, :]) ** 2).sum(axis=2))
    on = [k_ for k_ in range(len(nuc)) if not np.any((dn[k_] > 0) & (dn[k_] < 0.05))]
    gp, gp2 = np.vstack([nuc[on], pts + np.array([0.05, 0.02, 0.01])]), np.vstack([nuc2[on], pts2 + R @ np.array([0.05, 0.02, 0.01])])
    cmp(call(electrostatic_potential, B(sh2), dm2, gp2, nuc2, Z, threshold_dist=1e-10),
        call(electrostatic_potential, B(shells), dm, gp, nuc, Z, threshold_dist=1e-10), "electrostatic_potential(points on nuclei, threshold_dist=1e-10)", "esp_on_nuclei")
    a, b = 0.3, 0.7
    S1 = call(ST.evaluate_stress_tensor, dm, B(shells), pts, alpha=a, beta=b)
    if not isinstance(S1, cm.Raised):
        cmp(call(ST.evaluate_stress_tensor, dm2, B(sh2), pts2, alpha=a, beta=b), np.einsum("ka,lb,nab->nkl", R, R, S1), "evaluate_stress_tensor (tensor law)", "stress",
            floor=mag(ST.evaluate_stress_tensor, dma, B(shells), pts, alpha=a, beta=b))
    F1 = call(ST.evaluate_ehrenfest_force, dm, B(shells), pts, alpha=a, beta=b)
    if not isinstance(F1, cm.Raised):
        cmp(call(ST.evaluate_ehrenfest_force, dm2, B(sh2), pts2, alpha=a, beta=b), F1 @ R.T, "evaluate_ehrenfest_force (vector law)", "force",
            floor=mag(ST.evaluate_ehrenfest_force, dma, B(shells), pts, alpha=a, beta=b, order=3))
    H1 = call(ST.evaluate_ehrenfest_hessian, dm, B(shells), pts[:2], alpha=a, beta=b)
    if not isinstance(H1, cm.Raised):
        cmp(call(ST.evaluate_ehrenfest_hessian, dm2, B(sh2), pts2[:2], alpha=a, beta=b), np.einsum("ka,lb,nab->nkl", R, R, H1), "evaluate_ehrenfest_hessian (tensor law)", "ehrenfest_hessian",
            floor=mag(ST.evaluate_ehrenfest_hessian, dma, B(shells), pts[:2], alpha=a, beta=b, order=4))
    # the same laws through the optional arguments: the symmetrised Hessian is a tensor too, and the potential of fixed orbitals
    # (psi = T phi = T D^-1 phi', density matrix over the orbitals unchanged) is a scalar field
    H1s = call(ST.evaluate_ehrenfest_hessian, dm, B(shells), pts[:2], alpha=a, beta=b, symmetric=True)
    if not isinstance(H1s, cm.Raised):
        cmp(call(ST.evaluate_ehrenfest_hessian, dm2, B(sh2), pts2[:2], alpha=a, beta=b, symmetric=True), np.einsum("ka,lb,nab->nkl", R, R, H1s),
            "evaluate_ehrenfest_hessian(symmetric=True) (tensor law)", "ehrenfest_hessian",
            floor=mag(ST.evaluate_ehrenfest_hessian, dma, B(shells), pts[:2], alpha=a, beta=b, order=4))
    nfn = dm.shape[0]
    rngT = bases.rng_for("C12-T", case.get("cid", ""), nfn)
    Tm = rngT.normal(size=(max(1, nfn - 1), nfn))
    bo = rngT.normal(size=(Tm.shape[0], Tm.shape[0]))
    dmo = bo + bo.T
    cmp(call(electrostatic_potential, B(sh2), dmo, pts2 + R @ np.array([0.05, 0.02, 0.01]), nuc2, Z, transform=Tm @ Dinv),
        call(electrostatic_potential, B(shells), dmo, pts + np.array([0.05, 0.02, 0.01]), nuc, Z, transform=Tm), "electrostatic_potential(transform=T) of fixed orbitals", "esp_transform")
    if nfn <= 20 and int(rngT.integers(0, 4)) == 0:
        # the same law on a large grid (more than 500 points in one call), square transformation
        Tq = rngT.normal(size=(nfn, nfn))
        bq = rngT.normal(size=(nfn, nfn))
        big = nuc[0] + rngT.normal(size=(530, 3)) * 2.0 + 0.05
        big2 = np.array([R @ p_ + d for p_ in big])
        cmp(call(electrostatic_potential, B(sh2), bq + bq.T, big2, nuc2, Z, transform=Tq @ Dinv),
            call(electrostatic_potential, B(shells), bq + bq.T, big, nuc, Z, transform=Tq), "electrostatic_potential(transform=T) of fixed orbitals, 530 points", "esp_transform_large_grid")
    if case["eri"]:
        E1 = call(electron_repulsion_integral, B(shells), notation="chemist")
        if not isinstance(E1, cm.Raised):
            cmp(call(electron_repulsion_integral, B(sh2), notation="chemist"), two(E1, 4), "electron_repulsion_integral", "eri")
    nontrivial = any(s["l"] >= 1 for s in shells) and not np.allclose(R, np.eye(3))
    return {"evals": evals, "nontrivial": bool(nontrivial), "classes": case["classes"] + (["sp:%d" % case["spidx"]] if signed else []), "errs": errs, "violations": viols}


def summarize(cases, results, counts, lists, tier):
    sp = {c["spidx"] for c in cases if c["spidx"] >= 0}
    return {"enumerated": {"signed axis permutations": "%d of 48" % len(sp)}, "bound": "1e-9 of the array scale"}
