"""C05 values and arbitrary-order derivatives exact; back-ends agree; unsupported requests rejected."""
import itertools

import numpy as np

from vmon.gen import bases
from vmon.props import common as cm
from vmon.ref import gto

ID = "C05"
OWNS = ("C05",)
TOL = 1e-9
FLOOR_ABS = 1e-250
RULE = (
    "bases of 1-4 shells (l 0..6, 1-4 primitives, 1-3 segments, exponents in [0.02, cap(l)], cartesian/spherical per "
    "shell, with and without a square/rectangular transform); 1-50 points incl. exactly on a centre, on axes and "
    "coordinate planes through a centre, 1e-8 off them and far away; all 125 order triples 0..4^3 are enumerated "
    "across the cases of a run; evaluate_basis and evaluate_deriv_basis (back-end 'general' for every triple, "
    "'direct' for every triple) are compared with the reference (repeated application of q -> q' - 2 a t q in "
    "longdouble) within 1e-9 * conditioning scale + 1e-250; for triples with all orders <= 2 the two back-ends' "
    "observed arrays must agree within the same bound; for a triple with an order > 2 under 'direct', or an unknown "
    "back-end name, the observation must be an exception or numbers equal to the reference. non-trivial = a triple "
    "of total order >= 1 on a basis with a shell of l >= 1 and at least one hostile point class."
)
FLOOR = {"quick": 25, "thorough": 100}
DECIDING = ["eval:evaluate_basis", "eval:evaluate_deriv_basis", "kernel:EvalDeriv", "kernel:Eval"]
REQUIRED_LINES = [
    ("gbasis/evals/_deriv.py", "raw_first_deriv[:, n_0_indices, :] = part2_n_0[:, n_0_indices, :]"),
    ("gbasis/evals/_deriv.py", "raw_second_deriv[:, n_1_indices, :] = total_n_1[:, n_1_indices, :]"),
    ("gbasis/evals/_deriv.py", "raw_second_deriv[:, n_2_indices, :] = total_n_2[:, n_2_indices, :]"),
    ("gbasis/evals/eval_deriv.py", "return EvalDeriv(basis).construct_array_lincomb("),
]
ASSUMPTIONS = ["reference model vmon/ref/gto.py after self-test (HORTON evaluation arrays reproduced to 2e-14; derivatives vs finite differences)"]

ALL = list(itertools.product(range(5), repeat=3))


def gen_cases(tier, seed):
    n = 160 if tier == "quick" else 18000
    rng0 = bases.rng_for("C05", seed, tier, "orders")
    pool = []
    while len(pool) < 2 * n + 8:
        pool.extend(ALL[i] for i in rng0.permutation(len(ALL)))
    cases = []
    for i in range(n):
        rng = bases.rng_for("C05", seed, tier, i)
        nsh = int(rng.integers(1, 5))
        ls = [int(x) for x in rng.integers(0, 7, size=nsh)]
        ls[0] = i % 7
        tp = list(bases.type_patterns(nsh)[(i // 2) % (2 ** nsh)]) if i % 2 else None
        shells, classes = bases.rand_basis(rng, ls, types=tp, scale=1.2)
        pts, pcls = bases.rand_points(rng, shells, bases.npts_pick(rng, 51))
        orders = [list(pool[2 * i]), list(pool[2 * i + 1])]
        orders.append([int(x) for x in rng.integers(0, 3, size=3)])  # one triple both back-ends accept
        ntot = sum(bases.nfunc(s) for s in shells)
        T, tcls = bases.rand_transform(rng, ntot, "none" if i % 3 else None)
        cases.append({"shells": shells, "points": pts, "orders": orders, "transform": T,
                      "classes": classes + pcls + [tcls, "lmax:%d" % max(ls)] + ["o:%d%d%d" % tuple(o) for o in orders],
                      "cost": len(pts) * sum((1 + l) * len(s["e"]) for s, l in zip(shells, ls))})
    # many points (any chunking over points must be invisible)
    for i in range(2 if tier == "quick" else 12):
        rng = bases.rng_for("C05", seed, tier, "manypts", i)
        ls = [int(x) for x in rng.integers(0, 4, size=2)]
        shells, classes = bases.rand_basis(rng, ls, scale=1.0, emax_fn=lambda l: 30.0)
        npts = int(rng.choice([1025, 2500, 4099]))
        pts = (np.array(shells[0]["c"]) + rng.normal(size=(npts, 3)) * 1.5).tolist()
        pts[7] = list(shells[0]["c"])
        orders = [[int(x) for x in rng.integers(0, 3, size=3)], [int(x) for x in rng.integers(0, 5, size=3)], [1, 0, 2]]
        cases.append({"shells": shells, "points": pts, "orders": orders, "transform": None,
                      "classes": classes + ["pt:many(%d)" % npts, "pt:center", "T:none", "lmax:%d" % max(ls)] + ["o:%d%d%d" % tuple(o) for o in orders], "cost": npts * 4})
    # ... and a large grid with long general contractions of d/f shells (primitive x component x point arrays of 2e5..1e6)
    for i in range(1 if tier == "quick" else 4):
        rng = bases.rng_for("C05", seed, tier, "manypts-gen", i)
        shells, classes = bases.rand_basis(rng, [2 + i % 2, 1 + i % 3], types=["p", "c"] if i % 2 == 0 else ["c", "p"], scale=1.0, emax_fn=lambda l: 20.0)
        for s_ in shells:
            e0 = min(s_["e"])
            s_["e"] = [float(e0 * 2.3 ** j) for j in range(4)]
            s_["k"] = [[float(0.2 + 0.3 * rng.random()), float(rng.normal())] for _ in range(4)]
        npts = 9001 + 1000 * i
        pts = (np.array(shells[0]["c"]) + rng.normal(size=(npts, 3)) * 1.5).tolist()
        orders = [[0, 0, 0], [1, 0, 1], [0, 2, 0]]
        cases.append({"shells": shells, "points": pts, "orders": orders, "transform": None,
                      "classes": ["geom:general", "pt:many(%d)" % npts, "coef:general-K4M2", "T:none", "lmax:%d" % max(s_["l"] for s_ in shells)] + ["o:%d%d%d" % tuple(o) for o in orders], "cost": npts * 8})
    cases += bases.dup_variants("C05", seed, tier, cases, 7, ok=lambda c: c.get("transform") is None)  # one shell listed twice as the same object
    cases += bases.argrep_variants("C05", seed, tier, cases, 6, ok=lambda c: "shells" in c and c.get("kind") in (None, "whole", "kernel", "perm", "real"))  # constructor arguments in other in-memory representations
    return cases


def run_case(case):
    from gbasis.evals.eval import evaluate_basis
    from gbasis.evals.eval_deriv import evaluate_deriv_basis

    shells = case["shells"]
    pts = np.array(case["points"], dtype=float).reshape(-1, 3)
    T = None if case["transform"] is None else np.array(case["transform"], dtype=float)
    viols, errs = [], {}
    evals = 0
    rs = cm.rshells(shells)
    rkind = cm.REPS[(sum(len(s_["e"]) for s_ in shells) + len(pts)) % len(cm.REPS)]  # representation / dtype of the array arguments
    pts = cm.rep_values(pts, rkind)
    gpts = cm.rep_typed(pts, rkind)
    if T is not None:
        T = cm.rep_values(T, rkind, scale=2.0)
    kw = {} if T is None else {"transform": cm.rep_typed(T, rkind)}

    def reference(o):
        v, sc = gto.eval_deriv_basis(rs, pts, o, with_scale=True)
        if T is not None:
            v, sc = T @ v, np.abs(T) @ sc
        return v, sc

    # order zero through evaluate_basis
    v0, s0 = reference((0, 0, 0))
    out = cm.call(evaluate_basis, cm.build(shells), gpts, **kw)
    cm.compare(out, v0, TOL, "evaluate_basis", "value", viols, errs, scale=s0 + FLOOR_ABS / TOL, ls=cm.ls_of(shells))
    evals += 1
    for o in case["orders"]:
        o = tuple(int(x) for x in o)
        v, sc = reference(o)
        scale = sc + FLOOR_ABS / TOL
        g = cm.call(evaluate_deriv_basis, cm.build(shells), gpts, np.array(o, dtype=int), **kw)
        cm.compare(g, v, TOL, "evaluate_deriv_basis(orders=%s, general)" % (o,), "deriv_general", viols, errs, scale=scale, orders=list(o), ls=cm.ls_of(shells))
        evals += 1
        d = cm.call(evaluate_deriv_basis, cm.build(shells), gpts, np.array(o, dtype=int), deriv_type="direct", **kw)
        evals += 1
        if max(o) <= 2:
            cm.compare(d, v, TOL, "evaluate_deriv_basis(orders=%s, direct)" % (o,), "deriv_direct", viols, errs, scale=scale, orders=list(o), ls=cm.ls_of(shells))
            if isinstance(d, np.ndarray) and isinstance(g, np.ndarray) and d.shape == g.shape:
                e, at = cm.maxerr(d, g, scale)
                errs["backends_agree"] = max(errs.get("backends_agree", 0.0), e)
                evals += 1
                if not e <= TOL:
                    viols.append(cm.viol("back-ends 'direct' and 'general' disagree by %.3e of the conditioning scale for orders %s" % (e, o),
                                         "backends_agree", e, TOL, orders=list(o)))
        else:
            # must be rejected, or answered with the right numbers
            if isinstance(d, cm.Raised):
                errs["unsupported_rejected"] = 0.0
            else:
                sv = cm.shape_violation(d, v.shape, "evaluate_deriv_basis(direct, order>2)")
                e = np.inf if sv else cm.maxerr(d, v, scale)[0]
                errs["unsupported_answered"] = max(errs.get("unsupported_answered", 0.0), min(e, 1e300))
                if not e <= TOL:
                    viols.append(cm.viol("back-end 'direct' answered orders %s (an order > 2, which it cannot honour) with numbers that differ from the derivative by %.3e of the conditioning scale instead of rejecting the request" % (o, min(e, 1e300)),
                                         "direct_unsupported_order", min(e, 1e300), TOL, orders=list(o)))
    # unknown back-end name
    o = tuple(int(x) for x in case["orders"][-1])
    v, sc = reference(o)
    u = cm.call(evaluate_deriv_basis, cm.build(shells), pts.copy(), np.array(o, dtype=int), deriv_type="analytic", **kw)
    evals += 1
    if not isinstance(u, cm.Raised):
        sv = cm.shape_violation(u, v.shape, "evaluate_deriv_basis(unknown back-end)")
        e = np.inf if sv else cm.maxerr(u, v, sc + FLOOR_ABS / TOL)[0]
        if not e <= TOL:
            viols.append(cm.viol("unknown back-end name answered with numbers off by %.3e" % min(e, 1e300), "unknown_backend", min(e, 1e300), TOL))
    hostile = any(c in ("pt:center", "pt:axis", "pt:plane", "pt:off-1e-8") for c in case.get("classes", []))
    nontrivial = hostile and any(sum(o) >= 1 for o in case["orders"]) and any(s["l"] >= 1 for s in shells)
    return {"evals": evals, "nontrivial": bool(nontrivial), "classes": case.get("classes", []) + ["rep:" + rkind], "errs": errs, "violations": viols}


def classify(case, v):
    if v.get("qty") == "direct_unsupported_order":
        return "C05/direct-backend-order-gt-2-silently-wrong"
    return None


def summarize(cases, results, counts, lists, tier):
    tr = {x for c in cases for x in c.get("classes", []) if x.startswith("o:")}
    lm = {x for c in cases for x in c.get("classes", []) if x.startswith("lmax:")}
    return {"enumerated": {"order triples 0..4^3": "%d of 125" % len(tr), "l_max values": sorted(lm)},
            "bound": "1e-9 * conditioning scale + 1e-250"}
