"""C16 analytic integrals and pointwise evaluations describe the same functions (uniform-grid quadrature)."""
import numpy as np

from vmon.gen import bases
from vmon.props import common as cm

ID = "C16"
OWNS = ("C16",)
RULE = (
    "bases of 1-3 shells (l 0..4 thorough / 0..2 quick, generalized, every cartesian/spherical pattern), exponents "
    "0.3..3, centres within 1 bohr of the origin, symmetric PSD density matrices; evaluate_basis, evaluate_deriv_basis "
    "(three first derivatives), evaluate_density and evaluate_posdef_kinetic_energy_density are observed on a uniform "
    "grid (box +-11 bohr, random offset; spacing 0.20 quick, 0.16 and 0.20 thorough, evaluated in chunks) and the offline "
    "checker compares h^3 Phi Phi^t with overlap_integral, h^3 Phi diag(m) Phi^t with moment_integral (orders up to 2), "
    "h^3/2 sum_k dPhi dPhi^t with kinetic_energy_integral, h^3 sum rho with tr(gamma S) and h^3 sum t+ with tr(gamma T); "
    "bound 1e-7 (quick) / 1e-8 (thorough) of the natural scale, and in the thorough tier the two spacings must agree to "
    "the bound (otherwise the case is inconclusive, not violated). non-trivial = a shell with l >= 1 and at least two "
    "functions of different shells or segments."
)
FLOOR = {"quick": 12, "thorough": 40}
DECIDING = ["eval:evaluate_basis", "eval:evaluate_deriv_basis", "eval:evaluate_density", "eval:evaluate_posdef_kinetic_energy_density",
            "eval:overlap_integral", "eval:moment_integral", "eval:kinetic_energy_integral"]
ASSUMPTIONS = ["the uniform-grid trapezoid rule converges geometrically for these exponents (checked per case by the two-spacing comparison in the thorough tier)"]
MORD = [[1, 0, 0], [0, 1, 0], [0, 0, 1], [2, 0, 0], [1, 1, 0], [0, 1, 1], [0, 0, 2], [1, 0, 1], [0, 2, 0]]


def gen_cases(tier, seed):
    n = 24 if tier == "quick" else 64
    lmax = 2 if tier == "quick" else 4
    cases = []
    for i in range(n):
        rng = bases.rng_for("C16", seed, tier, i)
        nsh = 1 + i % 3
        ls = [int(x) for x in rng.integers(0, lmax + 1, size=nsh)]
        ls[0] = i % (lmax + 1)
        if tier == "quick" and i in (3, 12):
            ls[0] = 4 if i == 3 else 3  # one g and one f shell in the quick tier as well (single shell: nsh = 1 for these i)
        pats = bases.type_patterns(nsh)
        tp = list(pats[(i // 3) % len(pats)])
        shells = []
        for l, t in zip(ls, tp):
            c = rng.normal(size=3)
            c = c / np.linalg.norm(c) * rng.uniform(0, 1.0)
            s = bases.rand_shell(rng, l, t=t, center=c, emin=0.3, emax=3.0, Kmax=3, Mmax=2, ecls=str(rng.choice(["log", "edge-lo", "edge-hi", "span"])))
            s.pop("_cls")
            shells.append(s)
        ntot = sum(bases.nfunc(s) for s in shells)
        # positive semi-definite matrices only: for an indefinite one the library clips (or rejects) the negative densities, as
        # documented, so that the density no longer integrates to tr(gamma S)
        dm, dcls = bases.rand_sym(rng, ntot, ["psd-lowrank", "psd", "diag", "psd", "idempotent", "psd"][i % 6])
        offset = [float(v) for v in rng.uniform(0, 1, size=3)]
        extra = []
        if i % 4 == 1:
            # the first shell sits exactly on a node of the (fine) grid, as an atom at the origin of a symmetric uniform
            # grid does: whole planes of grid points then have a relative coordinate that is exactly zero
            h = 0.20 if tier == "quick" else 0.16
            for ax_ in range(3):
                nodes = np.arange(-11.0 + offset[ax_] * h, 11.0, h)
                shells[0]["c"][ax_] = float(nodes[int(np.argmin(np.abs(nodes - shells[0]["c"][ax_])))])
            extra = ["centre-on-grid-node"]
        mcen = [0.0, 0.0, 0.0] if i % 2 == 0 else [float(v) for v in rng.normal(size=3) * 0.8]  # moments about the origin / about a general point
        extra = extra + ["moment-centre:" + ("origin" if i % 2 == 0 else "general")]
        cases.append({"shells": shells, "dm": dm, "offset": offset, "tier": tier, "mcen": mcen,
                      "classes": ["lmax:%d" % max(ls), "nsh:%d" % nsh, "types:" + "".join(tp), dcls] + extra, "cost": ntot * (3 if tier == "thorough" else 1)})
    cases += bases.argrep_variants("C16", seed, tier, cases, 6, ok=lambda c: "shells" in c and c.get("kind") in (None, "whole", "kernel", "perm", "real"))  # constructor arguments in other in-memory representations
    return cases


def grid_sums(shells, dm, h, offset, box=11.0, chunk=150000, mcen=(0.0, 0.0, 0.0)):
    from gbasis.evals.density import evaluate_density, evaluate_posdef_kinetic_energy_density
    from gbasis.evals.eval import evaluate_basis
    from gbasis.evals.eval_deriv import evaluate_deriv_basis

    ax = [np.arange(-box + o * h, box, h) for o in offset]
    nx, ny, nz = (len(a) for a in ax)
    basis = cm.build(shells)
    S = T = None
    Mo = None
    rho_sum = ked_sum = 0.0
    npts = 0
    # chunk over x-slabs
    per = max(1, chunk // (ny * nz))
    Y, Z = np.meshgrid(ax[1], ax[2], indexing="ij")
    yz = np.stack([Y.ravel(), Z.ravel()], axis=1)
    mord = np.array(MORD)
    for i0 in range(0, nx, per):
        xs = ax[0][i0:i0 + per]
        pts = np.concatenate([np.column_stack([np.full(len(yz), x), yz]) for x in xs], axis=0)
        npts += len(pts)
        phi = evaluate_basis(basis, pts)
        S = phi @ phi.T if S is None else S + phi @ phi.T
        rel = pts - np.array(mcen, dtype=float)[None, :]
        mo = np.stack([(phi * (rel[:, 0] ** o[0] * rel[:, 1] ** o[1] * rel[:, 2] ** o[2])[None, :]) @ phi.T for o in mord], axis=2)
        Mo = mo if Mo is None else Mo + mo
        t = 0.0
        for k in range(3):
            d = evaluate_deriv_basis(basis, pts, np.eye(3, dtype=int)[k])
            t = t + 0.5 * d @ d.T
        T = t if T is None else T + t
        rho_sum += float(evaluate_density(dm, basis, pts, threshold=1e30).sum())
        ked_sum += float(evaluate_posdef_kinetic_energy_density(dm, basis, pts, threshold=1e30).sum())
    w = h ** 3
    return {"S": S * w, "M": Mo * w, "T": T * w, "rho": rho_sum * w, "ked": ked_sum * w, "npts": npts}


def run_case(case):
    from gbasis.integrals.kinetic_energy import kinetic_energy_integral
    from gbasis.integrals.moment import moment_integral
    from gbasis.integrals.overlap import overlap_integral

    shells = case["shells"]
    dm = np.array(case["dm"], dtype=float)
    tier = case.get("tier", "quick")
    tol = 1e-7 if tier == "quick" else 1e-8
    viols, errs = [], {}
    evals = 0
    S = cm.call(overlap_integral, cm.build(shells))
    T = cm.call(kinetic_energy_integral, cm.build(shells))
    mcen = np.array(case.get("mcen", [0.0, 0.0, 0.0]), dtype=float)
    M = cm.call(moment_integral, cm.build(shells), mcen.copy(), np.array(MORD))
    for x, w in ((S, "overlap_integral"), (T, "kinetic_energy_integral"), (M, "moment_integral")):
        if isinstance(x, cm.Raised):
            viols.append(cm.unexpected(x, w))
    if viols:
        return {"evals": 3, "nontrivial": True, "classes": case["classes"], "errs": errs, "violations": viols}
    try:
        fine = grid_sums(shells, dm, 0.20 if tier == "quick" else 0.16, case["offset"], mcen=mcen)
        coarse = grid_sums(shells, dm, 0.20, case["offset"][::-1], mcen=mcen) if tier == "thorough" else None
    except Exception as exc:  # noqa: BLE001 -- an evaluation function raised on a plain grid
        out = cm.Raised(exc)
        viols.append(cm.unexpected(out, "grid evaluation"))
        return {"evals": 3, "nontrivial": True, "classes": case["classes"], "errs": errs, "violations": viols}
    tdiag = np.abs(np.diag(T))
    sT = np.sqrt(np.outer(tdiag, tdiag)) + 1e-300
    m2 = np.abs(np.einsum("iik->ik", cm.call(moment_integral, cm.build(shells), mcen.copy(), 2 * np.array(MORD))))
    sM = np.sqrt(np.sqrt(m2[:, None, :] * m2[None, :, :])) + 1e-300
    trS = float(np.sum(dm * S))
    trT = float(np.sum(dm * T))
    scS = float(np.sum(np.abs(dm) * np.abs(S))) + 1e-300
    scT = float(np.sum(np.abs(dm) * sT)) + 1e-300
    checks = [
        ("overlap", fine["S"], S, None, "h^3 Phi Phi^t vs overlap_integral"),
        ("moments", fine["M"], M, sM, "h^3 Phi m Phi^t vs moment_integral"),
        ("kinetic", fine["T"], T, sT, "h^3/2 sum dPhi dPhi^t vs kinetic_energy_integral"),
        ("density_trace", np.array([fine["rho"]]), np.array([trS]), np.array([scS]), "h^3 sum rho vs tr(gamma S)"),
        ("ked_trace", np.array([fine["ked"]]), np.array([trT]), np.array([scT]), "h^3 sum t+ vs tr(gamma T)"),
    ]
    incon = []
    for qty, num, ana, sc, what in checks:
        evals += 1
        e, at = cm.maxerr(num, ana, sc)
        errs[qty] = e
        converged = True
        if coarse is not None:
            key = {"overlap": "S", "moments": "M", "kinetic": "T", "density_trace": "rho", "ked_trace": "ked"}[qty]
            ec, _ = cm.maxerr(np.asarray(coarse[key]).reshape(np.shape(num)), num, sc)
            errs[qty + "_two_spacings"] = ec
            converged = ec <= tol
        if not e <= tol:
            if converged:
                viols.append(cm.viol("%s: numerical and analytic values differ by %.3e of the scale (bound %.0e) at %s" % (what, e, tol, at), qty, e, tol))
            else:
                incon.append(qty)
    nontrivial = any(s["l"] >= 1 for s in shells) and S.shape[0] >= 2
    out = {"evals": evals, "nontrivial": bool(nontrivial), "classes": case["classes"] + ["grid_points:%d" % fine["npts"]], "errs": errs, "violations": viols}
    if incon:
        out["quadrature_not_converged"] = incon
    return out


def inconclusive(results, counts, tier):
    bad = [r["cid"] for r in results if r.get("quadrature_not_converged")]
    return ["quadrature not converged (two spacings disagree) in cases %s" % bad[:5]] if len(bad) > len(results) // 4 else []


def summarize(cases, results, counts, lists, tier):
    pts = [int(c.split(":")[1]) for r in results for c in r.get("classes", []) if c.startswith("grid_points:")]
    return {"grid_points_per_case": {"min": min(pts) if pts else 0, "max": max(pts) if pts else 0},
            "not_converged_cases": [r["cid"] for r in results if r.get("quadrature_not_converged")]}
