"""C04 electron-repulsion integrals exact (1e-6 of the Schwarz scale) in both index conventions."""
import itertools

import numpy as np

from vmon.gen import bases
from vmon.props import common as cm
from vmon.ref import gto

ID = "C04"
OWNS = ("C04",)
TOL = 1e-6
RULE = (
    "kernel level: every 4-tuple of angular momenta 0..3 (all 256 tuples in both tiers; the thorough tier six draws per tuple covering the "
    "three geometry classes), 1-3 primitives, 1-2 segments, centres "
    "coincident / collinear / general, exponents log-uniform in 0.1..10 (0.2..5 when an f shell is present) with edge "
    "picks at the range ends; a fixed list of realistic ill-conditioned quartets (core s/p exponents 1e3..1e5 against "
    "diffuse d/f 0.1..0.3 in every pair arrangement, contracted cores); whole-basis calls of 2-4 shells (l<=2) in both "
    "conventions and all coordinate-type patterns. Every observed block/array is compared with the McMurchie-Davidson "
    "reference (longdouble Hermite coefficients, mpmath Boys) within 1e-6*sqrt((ab|ab)(cd|cd)) elementwise (reference "
    "Schwarz factors); physicists' array must be the chemists' array with the middle indices exchanged (bitwise). "
    "non-trivial = total L >= 1 and a reference element above 1e-8 of its Schwarz scale."
)
FLOOR = {"quick": 25, "thorough": 100}
DECIDING = ["eval:electron_repulsion_integral", "kernel:ElectronRepulsionIntegral", "boys"]
ASSUMPTIONS = ["reference model vmon/ref/gto.py (McMurchie-Davidson; HORTON ERI array reproduced to 1e-15 in the self-test)"]

ILL = [
    # (name, bra shells, ket shells) as (l, exps, coeffs-columns)
    ("ss|dd 1e5/0.1", [(0, [1e5]), (0, [1e5])], [(2, [0.1]), (2, [0.1])]),
    ("ss|ff 1e4/0.2", [(0, [1e4]), (0, [1e4])], [(3, [0.2]), (3, [0.2])]),
    ("ss|ff 1e3/0.2", [(0, [1e3]), (0, [1e3])], [(3, [0.2]), (3, [0.2])]),
    ("ss|ff 1e3/0.3", [(0, [1e3]), (0, [1e3])], [(3, [0.3]), (3, [0.3])]),
    ("pp|dd 1e4/0.1", [(1, [1e4]), (1, [1e4])], [(2, [0.1]), (2, [0.1])]),
    ("ss|dd contracted core", [(0, [1e5, 3e3, 50.0, 1.0]), (0, [1e5, 3e3, 50.0, 1.0])], [(2, [0.1, 0.4]), (2, [0.1])]),
    ("sp|df 1e4,1e3/0.1,0.25", [(0, [1e4]), (1, [1e3])], [(2, [0.1]), (3, [0.25])]),
    # general contractions running from core to valence exponents (the tightest primitive hides behind a diffuse one)
    ("ss|ff core-to-valence contraction", [(0, [1.457e5, 2.2e3, 31.0, 0.1737]), (0, [1.457e5, 2.2e3, 31.0, 0.1737])], [(3, [0.25]), (3, [0.25])]),
    ("sp|dd core-to-valence contraction", [(0, [8.2e4, 1.2e3, 20.0, 0.12]), (1, [9.4e3, 95.0, 0.9, 0.11])], [(2, [0.12]), (2, [0.3])]),
    # the tight pair carries at least as much angular momentum as the diffuse one: the transfer must run from the
    # diffuse to the tight pair although both directions move the same number of units
    ("dd|dd 1e3/0.02", [(2, [1e3]), (2, [1e3])], [(2, [0.02]), (2, [0.02])]),
    ("ff|ff 100/0.05", [(3, [100.0]), (3, [100.0])], [(3, [0.05]), (3, [0.05])]),
    ("pd|pp 1e4,1e3/0.02", [(1, [1e4]), (2, [1e3])], [(1, [0.02]), (1, [0.02])]),
    ("pp|pp 1e4/0.02", [(1, [1e4]), (1, [1e4])], [(1, [0.02]), (1, [0.02])]),
]
# four-centre quartets: two heavy atoms with contracted core shells, polarisation functions on two neighbours. The two
# pairs of an arrangement then need DIFFERENT in-pair orders and a bra/ket exchange at the same time, so that a
# heuristic taken before and applied after the exchange (or vice versa) shows. (name, bra, ket, centres t0 t1 d0 d1)
_CORE6 = [1.0e5, 1.0e4, 1.0e3, 1.0e2, 1.0e1, 1.0]
ILL4 = [
    ("pd|fp contracted core p, four centres", [(1, _CORE6), (1, [1.2e5, 1.22e4, 1.24e3, 126.0, 12.8, 1.3])], [(2, [0.24]), (3, [0.12])],
     [[0.0, 0.0, 0.0], [0.2, -0.1, 0.3], [0.0, 1.65, 1.05], [1.8, -0.45, 0.75]]),
    ("sd|fs contracted core s, four centres", [(0, _CORE6), (0, [8.0e4, 9.0e3, 1.1e3, 140.0, 17.0, 2.1])], [(2, [0.2]), (3, [0.15])],
     [[0.0, 0.0, 0.0], [-0.3, 0.2, 0.1], [1.4, 0.9, -0.6], [-0.7, 1.9, 0.8]]),
    ("pf|dp contracted core p, diffuse pair 3 bohr apart", [(1, _CORE6), (1, _CORE6)], [(3, [0.2]), (2, [0.3])],
     [[0.0, 0.0, 0.0], [2.6, 0.4, -0.3], [0.5, 2.2, 0.9], [2.0, -1.8, 1.1]]),
]
# Used by C11 only (the symmetry statement): d and p contractions that hold a 2000 and a 0.2 primitive are outside the exponent
# ranges for which C04 states its accuracy bound (measured on the unchanged tree: up to 1.2e-2 of the Schwarz scale in the
# arrangements that mix the pairs), but the eight orientations of such a quartet must still agree with each other.
ILL4_SYMMETRY = [
    # BOTH pairs hold a tight and a diffuse primitive and carry the same angular momentum, four centres about one bohr apart:
    # the two orientations have large, nearly equal amplification estimates (within a factor 100 of each other, not tied), so
    # the choice between them hangs on a small margin - and must come out the same whichever way the caller lists the pairs
    ("dp|dp both pairs 2000..0.2, four centres", [(2, [2000.0, 0.20]), (1, [1800.0, 0.18])], [(2, [1500.0, 0.30]), (1, [1650.0, 0.33])],
     [[0.10, -0.35, 0.20], [1.05, 0.40, -0.15], [-0.60, 0.85, 0.90], [0.35, -0.95, 1.30]]),
    ("pd|dp both pairs 400..0.5, four centres", [(1, [400.0, 0.50]), (2, [360.0, 0.45])], [(2, [300.0, 0.60]), (1, [330.0, 0.66])],
     [[0.10, -0.35, 0.20], [1.05, 0.40, -0.15], [-0.60, 0.85, 0.90], [0.35, -0.95, 1.30]]),
]


def amp(bra, ket):
    """log-amplification of the electron-transfer step when `ket` angular momentum is built from `bra`
    (exponent ratio only: the measure the library itself uses to choose the orientation)."""
    steps = ket[0]["l"] + ket[1]["l"]
    p = max(bra[0]["e"]) + max(bra[1]["e"])
    q = min(ket[0]["e"]) + min(ket[1]["e"])
    return steps * max(float(np.log(p / q)), 0.0)


def amp_total(shells):
    """Rounding-amplification exponent of the HGP scheme for a shell quartet, best orientation.

    electron transfer: every unit of ket angular momentum multiplies intermediates by at most
        [p_max + b_max |AB| + d_max |CD|] / q_min          (coefficients of the transfer recursion);
    horizontal recursion: every unit moved to the second function of a pair multiplies by |AB| (|CD|), i.e. by
        |AB| sqrt(p_max) in units of the pair's own length scale, and cancels.
    Returns (A, A_transfer, A_horizontal) with A = min over the two orientations of A_transfer, plus A_horizontal.
    Calibrated on 3471 random quartets: every deviation above 1e-6 had A >= 24.5 and all deviations obeyed
    err <= 4e2 * eps * exp(A).
    """
    def pr(a, b):
        return {"pmax": max(a["e"]) + max(b["e"]), "pmin": min(a["e"]) + min(b["e"]), "e2": max(b["e"]), "L": a["l"] + b["l"], "l2": b["l"],
                "dist": float(np.linalg.norm(np.array(a["c"]) - np.array(b["c"])))}

    bra, ket = pr(shells[0], shells[1]), pr(shells[2], shells[3])

    def et(b, k):
        g = (b["pmax"] + b["e2"] * b["dist"] + k["e2"] * k["dist"]) / k["pmin"]
        return k["L"] * float(np.log(max(g, 1.0)))

    hr = bra["l2"] * float(np.log(max(1.0, bra["dist"] * np.sqrt(bra["pmax"])))) + ket["l2"] * float(np.log(max(1.0, ket["dist"] * np.sqrt(ket["pmax"]))))
    a_et = min(et(bra, ket), et(ket, bra))
    return a_et + hr, a_et, hr


def policy_block(shells, gb):
    """The shell-quartet block as the library's own primitive-level kernel gives it when called in the orientation the
    DOCUMENTED policy selects (transfer recursion from the pair with the smaller amplification estimate, ties keep the
    given order; within each pair the shell with the larger maximal exponent first, ties keep the given order).

    Used only by the classifiers: the recorded finding "recursion amplification" is the error that REMAINS under that
    policy. A library result that is much worse than this block is some other defect (an orientation rule lost or
    misapplied) and must not be filed under the recorded mechanism. Returns the block with axes (M1, L1, ..., M4, L4)
    of the shells in the given order, not normalised; None when the kernel cannot be called this way."""
    try:
        from gbasis.integrals._two_elec_int import _compute_two_elec_integrals, _compute_two_elec_integrals_angmom_zero
        from gbasis.integrals.electron_repulsion import ElectronRepulsionIntegral as E

        order = [0, 1, 2, 3]
        if amp([shells[2], shells[3]], [shells[0], shells[1]]) < amp([shells[0], shells[1]], [shells[2], shells[3]]):
            order = [2, 3, 0, 1]
        if max(shells[order[1]]["e"]) > max(shells[order[0]]["e"]):
            order[0], order[1] = order[1], order[0]
        if max(shells[order[3]]["e"]) > max(shells[order[2]]["e"]):
            order[2], order[3] = order[3], order[2]
        c = [gb[k] for k in order]
        with np.errstate(all="ignore"):
            if all(x.angmom == 0 for x in c):
                raw = _compute_two_elec_integrals_angmom_zero(E.boys_func, *[y for x in c for y in (x.coord, x.exps, x.coeffs)])
            else:
                raw = _compute_two_elec_integrals(E.boys_func, *[y for x in c for y in (x.coord, x.angmom, x.angmom_components_cart, x.exps, x.coeffs)])
        out = np.transpose(raw, (4, 0, 5, 1, 6, 2, 7, 3))  # axis pair j belongs to shell order[j]
        inv = [order.index(k) for k in range(4)]
        return np.transpose(out, [x for k in inv for x in (2 * k, 2 * k + 1)])
    except Exception:  # noqa: BLE001 -- a refactored kernel: the classifier falls back to the envelope alone
        return None


def _mk(l, exps, rng, center):
    K = len(exps)
    k = [[1.0] for _ in range(K)] if K == 1 else [[float(0.3 + rng.random())] for _ in range(K)]
    return {"l": l, "c": [float(v) for v in center], "e": [float(x) for x in exps], "k": k, "t": "c"}


def _rev(s):
    """the same shell with its primitives listed in the opposite order (diffuse first)"""
    return dict(s, e=list(s["e"])[::-1], k=[list(r) for r in s["k"]][::-1])


def gen_cases(tier, seed):
    cases = []
    tuples = list(itertools.product(range(4), repeat=4))
    sel = tuples
    if tier == "quick":
        geoms = [None]
    else:
        geoms = ["coincident", "collinear", "general", "near", "far", None, None, None, None, None]
    for ls in sel:
        for gi, geom in enumerate(geoms):
            rng = bases.rng_for("C04", seed, tier, ls, gi)
            hasf = 3 in ls
            lo, hi = (0.2, 5.0) if hasf else (0.1, 10.0)
            L = sum(ls)
            g = geom or str(rng.choice(["coincident", "collinear", "general", "general"]))
            centers, gcls = bases.rand_centers(rng, 4, g, scale=0.9)
            shells = []
            kmax = 3 if L <= 6 else (2 if L <= 9 else 1)
            if tier == "thorough" and L > 9:
                kmax = 2
            for l, c in zip(ls, centers):
                K = int(rng.integers(1, kmax + 1))
                M = int(rng.integers(1, 3)) if L <= 8 else 1
                s = bases.rand_shell(rng, l, K=K, M=M, t="c", center=c, emin=lo, emax=hi, ecls=str(rng.choice(["log", "log", "edge-lo", "edge-hi", "span"])))
                s.pop("_cls")
                shells.append(s)
            cost = 1.0
            for s in shells:
                cost *= len(s["e"]) * (s["l"] + 1) * (s["l"] + 2) / 2 * len(s["k"][0])
            cases.append({"kind": "kernel", "shells": shells, "classes": [gcls, "ls:%d%d%d%d" % ls, "L:%d" % L], "cost": cost * (1 + L) ** 2 / 50})
    # hostile family: every shell spans the whole admissible exponent range (both orientations amplify)
    heavy = [t for t in tuples if sum(t) >= 8]
    nh = 24 if tier == "quick" else 600
    rngh = bases.rng_for("C04", seed, tier, "span")
    for i in range(nh):
        ls = heavy[int(rngh.integers(len(heavy)))]
        rng = bases.rng_for("C04", seed, tier, "span", i)
        lo, hi = (0.2, 5.0) if 3 in ls else (0.1, 10.0)
        centers, gcls = bases.rand_centers(rng, 4, str(rng.choice(["coincident", "general", "near"])), scale=0.8)
        shells = []
        for l, c in zip(ls, centers):
            s = bases.rand_shell(rng, l, K=int(rng.integers(2, 4)) if sum(ls) <= 10 else 2, M=1, t="c", center=c, emin=lo, emax=hi, ecls="span")
            s.pop("_cls")
            shells.append(s)
        cost = 1.0
        for s in shells:
            cost *= len(s["e"]) * (s["l"] + 1) * (s["l"] + 2) / 2
        cases.append({"kind": "kernel", "shells": shells, "classes": [gcls, "span-all", "ls:%d%d%d%d" % ls, "L:%d" % sum(ls)], "cost": cost * (1 + sum(ls)) ** 2 / 50})
    # Boys-window family: high-l quartets on two centres whose Boys argument rho |PQ|^2 runs through 10 .. 40
    bw = [((3, 3), (3, 3)), ((3, 2), (3, 2)), ((2, 2), (2, 2)), ((3, 3), (2, 2))]
    for (lb_, lk_) in bw:
        for T in range(10, 42, 4 if tier == "quick" else 2):
            rng = bases.rng_for("C04", seed, tier, "boys", lb_, lk_, T)
            ea, ec = float(rng.uniform(1.5, 4.0)), float(rng.uniform(1.5, 4.0))
            rho = (2 * ea) * (2 * ec) / (2 * ea + 2 * ec)
            u = rng.normal(size=3)
            u /= np.linalg.norm(u)
            A = rng.normal(size=3) * 0.5
            Bc = A + u * float(np.sqrt(T / rho))
            shells = [{"l": lb_[0], "c": [float(v) for v in A], "e": [ea], "k": [[1.0]], "t": "c"}, {"l": lb_[1], "c": [float(v) for v in A], "e": [ea], "k": [[1.0]], "t": "c"},
                      {"l": lk_[0], "c": [float(v) for v in Bc], "e": [ec], "k": [[1.0]], "t": "c"}, {"l": lk_[1], "c": [float(v) for v in Bc], "e": [ec], "k": [[1.0]], "t": "c"}]
            cases.append({"kind": "kernel", "shells": shells, "classes": ["boys-window", "boysT:%d" % T, "ls:%d%d%d%d" % (lb_ + lk_)], "cost": 300})
    # displaced copies: a pair (and the whole quartet) on nearly coincident centres, also far from the origin
    for i in range(12 if tier == "quick" else 80):
        rng = bases.rng_for("C04", seed, tier, "displaced", i)
        la, lb, lc, ld = (int(x) for x in rng.integers(0, 3, size=4))
        p1, c1 = bases.displaced_pair(rng, la, lb, emax=10.0)
        p2, c2 = bases.displaced_pair(rng, lc, ld, emax=10.0)
        if i % 2:
            off = np.array(p1[0]["c"]) - np.array(p2[0]["c"]) + rng.normal(size=3) * 0.8
            for s_ in p2:
                s_["c"] = [float(v) for v in np.array(s_["c"]) + off]
        shells = [dict(s_, t="c", k=[[r[0]] for r in s_["k"]]) for s_ in (p1 + p2)]
        order = [shells[0], shells[1], shells[2], shells[3]] if i % 4 < 2 else [shells[0], shells[2], shells[1], shells[3]]
        cases.append({"kind": "kernel", "shells": order, "classes": sorted(set(c1 + c2)) + ["ls:%d%d%d%d" % tuple(s_["l"] for s_ in order)], "cost": 60})
    # core s quartets of a molecule that sits far from the coordinate origin (a fragment of a large system, coordinates
    # that were never centred): the integrals depend on differences of centres only
    for i in range(8 if tier == "quick" else 48):
        rng = bases.rng_for("C04", seed, tier, "far-core-s", i)
        R = rng.normal(size=3)
        R = R / np.linalg.norm(R) * float(10 ** rng.uniform(2.5, 4.0))
        nat = 1 + i % 2
        # second atom: a neighbour, or (every fourth case) a finite-difference displaced copy a few 1e-3 bohr away
        cen = [R + rng.normal(size=3) * (0.0 if a == 0 else (0.004 if i % 4 == 3 else 1.2)) for a in range(nat)]
        shells = []
        for j in range(4):
            K = int(rng.integers(1, 4))
            e = sorted((float(10 ** rng.uniform(2.5, 5.0)) for _ in range(K)), reverse=True)
            if j == 3 and i % 4 >= 2:
                e = [float(10 ** rng.uniform(-0.5, 1.0))]
            shells.append({"l": 0, "c": [float(v) for v in cen[(j // 2) % nat if i % 4 < 2 else j % nat]], "e": e, "k": [[float(rng.uniform(0.2, 1.0))] for _ in e], "t": "c"})
        cases.append({"kind": "kernel", "shells": shells, "classes": ["far-from-origin", "core-s", "ls:0000", "atoms:%d" % nat], "cost": 40})
    # high angular momentum AND three primitives on every shell (the largest intermediates of the recursions)
    big = [(3, 2, 3, 2), (3, 3, 2, 2), (3, 2, 2, 2), (2, 3, 3, 2)] if tier == "quick" else [(3, 2, 3, 2), (3, 3, 2, 2), (3, 2, 2, 2), (2, 3, 3, 2), (3, 3, 3, 2), (2, 2, 2, 2), (3, 1, 3, 2), (3, 3, 3, 3)]
    for i, ls in enumerate(big):
        rng = bases.rng_for("C04", seed, tier, "bigK", i)
        centers, gcls = bases.rand_centers(rng, 4, "general", scale=0.8, offset=False)
        shells = []
        for l, c in zip(ls, centers):
            s_ = bases.rand_shell(rng, l, K=3 if sum(ls) < 12 else 2, M=1, t="c", center=c, emin=0.3, emax=3.0, ecls="log")
            s_.pop("_cls")
            shells.append(s_)
        cases.append({"kind": "kernel", "shells": shells, "classes": [gcls, "bigK", "ls:%d%d%d%d" % ls, "L:%d" % sum(ls)], "cost": 4000})
    # contractions normalised as in published tables: every column is unit-normalised and then rounded to 5-7 significant digits
    # (norm = 1 +- 1e-7..1e-5); the four normalisation factors of a quartet then differ from 1 by a few 1e-6 altogether
    for i in range(16 if tier == "quick" else 120):
        rng = bases.rng_for("C04", seed, tier, "prenorm", i)
        ls = [int(x) for x in rng.choice([0, 0, 1, 1, 2], size=4)]
        centers, gcls = bases.rand_centers(rng, 4, ["coincident", "general", "collinear", "general"][i % 4], scale=0.9, offset=False)
        if i % 3 == 0:
            centers = [centers[0], centers[0], centers[1], centers[1]]  # two atoms
        shells = []
        for l, c in zip(ls, centers):
            s_ = bases.rand_shell(rng, l, K=int(rng.integers(2, 4)), M=int(rng.integers(1, 3)), t=str(rng.choice(["c", "p"])), center=c, emin=0.15, emax=8.0, ecls="log")
            s_.pop("_cls")
            s_["k"] = bases.prenormalise(l, s_["e"], [[abs(v) + 0.2 for v in row] for row in s_["k"]], int(rng.integers(5, 8)))
            shells.append(s_)
        if i % 4 == 1:
            shells = [shells[0], dict(shells[0]), shells[2], dict(shells[2])]  # (aa|bb): the same tabulated shell twice in each pair
        cases.append({"kind": "kernel", "shells": [dict(s_, t="c") for s_ in shells], "classes": [gcls, "coef:prenormalised-5-7-digits", "ls:%d%d%d%d" % tuple(s_["l"] for s_ in shells)], "cost": 80})
        if i % 2 == 0:
            cases.append({"kind": "whole", "shells": shells[:2] if i % 4 else [shells[0], shells[2]], "classes": [gcls, "coef:prenormalised-5-7-digits", "whole:nsh2", "types:" + "".join(s_["t"] for s_ in (shells[:2] if i % 4 else [shells[0], shells[2]]))],
                          "cost": 200})
    # long contractions: 17..33 primitives in one shell (ANO / even-tempered style)
    for i in range(6 if tier == "quick" else 40):
        rng = bases.rng_for("C04", seed, tier, "longK", i)
        K = int(rng.choice([17, 20, 31, 33]))
        ls = [int(x) for x in rng.integers(0, 3, size=4)]
        if sum(ls) == 0:
            ls[1] = 1
        centers, gcls = bases.rand_centers(rng, 4, None, scale=0.9)
        shells = []
        for j, (l, c) in enumerate(zip(ls, centers)):
            if j == i % 4:
                e = [float(x) for x in np.exp(np.linspace(np.log(0.15), np.log(8.0), K))]
                s_ = {"l": l, "c": c, "e": e, "k": bases.rand_coeffs(rng, l, e, 1), "t": "c"}
            else:
                s_ = bases.rand_shell(rng, l, K=1, M=1, t="c", center=c, emin=0.3, emax=4.0)
                s_.pop("_cls")
            shells.append(s_)
        cases.append({"kind": "kernel", "shells": shells, "classes": [gcls, "longK:%d" % K, "ls:%d%d%d%d" % tuple(ls)], "cost": 40 * K})
    # ill-conditioned list, all pair arrangements
    rng = bases.rng_for("C04", "ill")
    cen = [[0.0, 0.0, 0.0], [0.0, 0.0, 0.0], [0.9, 0.3, -0.4], [0.9, 0.3, -0.4]]
    for name, bra, ket in ILL:
        t = [_mk(l, e, rng, cen[0]) for l, e in bra]
        d = [_mk(l, e, rng, cen[2]) for l, e in ket]
        for arr_name, order in (("(tt|dd)", [t[0], t[1], d[0], d[1]]), ("(dd|tt)", [d[0], d[1], t[0], t[1]]),
                                ("(td|td)", [t[0], d[0], t[1], d[1]]), ("(td|dt)", [t[0], d[0], d[1], t[1]]),
                                ("(dt|td)", [d[0], t[0], t[1], d[1]]), ("(dt|dt)", [d[0], t[0], d[1], t[1]])):
            cases.append({"kind": "kernel", "shells": [dict(s) for s in order], "classes": ["ill:" + name, "arr:" + arr_name], "cost": 400})
        if name in ("ss|dd 1e5/0.1", "ss|ff 1e3/0.2", "pp|dd 1e4/0.1", "ss|dd contracted core"):
            # all four shells on ONE centre (an atom): the orientation rules must not depend on the centres being different
            for arr_name, order in (("(tt|dd)", [t[0], t[1], d[0], d[1]]), ("(dd|tt)", [d[0], d[1], t[0], t[1]]), ("(td|dt)", [t[0], d[0], d[1], t[1]])):
                cases.append({"kind": "kernel", "shells": [dict(s, c=list(cen[0])) for s in order], "classes": ["ill:" + name, "arr:" + arr_name, "one-centre"], "cost": 400})
        if any(len(s_["e"]) > 1 for s_ in t + d):
            # the same contracted shells with their primitives listed diffuse-to-tight
            for arr_name, order in (("(tt|dd)", [t[0], t[1], d[0], d[1]]), ("(td|dt)", [t[0], d[0], d[1], t[1]])):
                cases.append({"kind": "kernel", "shells": [_rev(s) for s in order], "classes": ["ill:" + name, "arr:" + arr_name, "primitives-reversed"], "cost": 400})
    rng = bases.rng_for("C04", "ill4")
    for name, bra, ket, cen4 in ILL4:
        t = [_mk(l, e, rng, c_) for (l, e), c_ in zip(bra, cen4[:2])]
        d = [_mk(l, e, rng, c_) for (l, e), c_ in zip(ket, cen4[2:])]
        for arr_name, order in (("(tt|dd)", [t[0], t[1], d[0], d[1]]), ("(dd|tt)", [d[0], d[1], t[0], t[1]]),
                                ("(td|td)", [t[0], d[0], t[1], d[1]]), ("(td|dt)", [t[0], d[0], d[1], t[1]]),
                                ("(dt|td)", [d[0], t[0], t[1], d[1]]), ("(dt|dt)", [d[0], t[0], d[1], t[1]]),
                                ("(td'|dt')", [t[1], d[0], d[1], t[0]]), ("(d't|t'd)", [d[1], t[0], t[1], d[0]])):
            cases.append({"kind": "kernel", "shells": [dict(s) for s in order], "classes": ["ill:" + name, "arr:" + arr_name], "cost": 1500})
        for arr_name, order in (("(tt|dd)", [t[0], t[1], d[0], d[1]]), ("(td|dt)", [t[0], d[0], d[1], t[1]])):
            cases.append({"kind": "kernel", "shells": [_rev(s) for s in order], "classes": ["ill:" + name, "arr:" + arr_name, "primitives-reversed"], "cost": 1500})
    # whole-basis calls
    nw = 16 if tier == "quick" else 240
    for i in range(nw):
        rng = bases.rng_for("C04", seed, tier, "whole", i)
        nsh = 2 + i % 3
        lmax = 2 if nsh < 4 else 1
        ls = [int(x) for x in rng.integers(0, lmax + 1, size=nsh)]
        if i % 2 == 0:
            ls[0] = lmax
        pats = bases.type_patterns(nsh)
        tp = list(pats[i % len(pats)])
        shells, classes = bases.rand_basis(rng, ls, types=tp, emin=0.1, emax_fn=lambda l: 10.0, Kmax=2, Mmax=2, scale=0.9)
        if i % 4 == 1:
            # general contraction of s functions with exact zeros (cc-pVXZ layout) next to shells with l > 0: the all-s
            # quartets and the mixed quartets must describe the same s functions
            shells[0] = dict(shells[0], l=0, e=[7.5, 1.1, 0.25], k=[[0.4, 0.0], [0.7, -0.3], [0.0, 1.0]])
            if nsh >= 3:
                shells[1] = dict(shells[1], l=0, e=[3.0, 0.4], k=[[1.0, 0.0], [0.2, 1.0]])
            classes = classes + ["coef:zeros-s"]
        cases.append({"kind": "whole", "shells": shells, "classes": classes + ["whole:nsh%d" % nsh, "types:" + "".join(tp)],
                      "cost": sum(bases.nfunc(s) for s in shells) ** 4 / 40})
    cases += bases.dup_variants("C04", seed, tier, [c for c in cases if c["kind"] == "whole" and sum(bases.nfunc(s) for s in c["shells"]) <= 13], 2)  # one shell listed twice as the same object
    cases += bases.argrep_variants("C04", seed, tier, cases, 9, ok=lambda c: c.get("cost", 0) < 500)  # constructor arguments in other in-memory representations
    return cases


def schwarz(ra, rb):
    blk = gto.eri_block(ra, rb, ra, rb)
    n1, n2 = blk.shape[0], blk.shape[1]
    d = np.abs(blk.reshape(n1 * n2, n1 * n2).diagonal()).reshape(n1, n2)
    return np.sqrt(d)


FAR = 1e-9  # an element is "far-field" when its Schwarz scale is below FAR x the largest Schwarz scale of the array


def judge_eri(out, ref, scale, what, qty, viols, errs, info, locate=None):
    """Elementwise |out-ref| <= 1e-6*schwarz. Elements whose Schwarz scale is below FAR of the array's largest are
    reported separately (qty + '_farfield') with the absolute error, so that the classifier can key them."""
    if isinstance(out, cm.Raised):
        viols.append(cm.unexpected(out, what, **info))
        return
    sv = cm.shape_violation(out, ref.shape, what)
    if sv:
        viols.append(sv)
        return
    err = np.abs(np.asarray(out) - ref)
    err = np.where(np.isnan(err), np.inf, err)
    smax = float(scale.max())
    rmax = float(np.abs(ref).max())
    near = scale >= FAR * max(smax, 1e-2)
    rel = err / scale
    for mask, q in ((near, qty), (~near, qty + "_farfield")):
        if not mask.any():
            continue
        r = np.where(mask, rel, 0.0)
        at = np.unravel_index(int(np.argmax(r)), r.shape)
        e = float(r[at])
        errs[q] = max(errs.get(q, 0.0), min(e, 1e300))
        if q.endswith("_farfield"):
            errs[q + "_abs_over_max"] = max(errs.get(q + "_abs_over_max", 0.0), float(np.where(mask, err, 0.0).max()) / (rmax + 1e-300))
        if not e <= TOL:
            info = dict(info)
            if locate is not None:  # whole-basis array: amplification exponent of the shell quartet the element belongs to
                offs, shells, notation = locate
                idx = [cm.block_of(offs, int(x)) for x in at]
                if notation == "physicist":
                    idx = [idx[0], idx[2], idx[1], idx[3]]
                info["quartet"] = idx
                info["A_total"], info["A_transfer"], info["A_horizontal"] = amp_total([shells[k] for k in idx])
            viols.append(cm.viol("%s deviates from the reference by %.3e of the Schwarz scale (bound 1e-6) at %s: got %.6e, reference %.6e, Schwarz scale %.3e (largest in the array %.3e)" % (
                what, min(e, 1e300), tuple(int(x) for x in at), float(np.asarray(out)[at]), float(ref[at]), float(scale[at]), smax),
                q, min(e, 1e300), TOL, abs_err=float(err[at]), ref_max=rmax, schwarz=float(scale[at]), schwarz_max=smax, at=[int(x) for x in at], **info))


def run_case(case):
    from gbasis.integrals.electron_repulsion import ElectronRepulsionIntegral, electron_repulsion_integral

    shells = case["shells"]
    viols, errs = [], {}
    evals = 0
    rs = cm.rshells(shells)
    info = {"ls": cm.ls_of(shells)}
    if case["kind"] == "kernel":
        a, b, c, d = rs
        ref = gto.eri_block(a, b, c, d)
        sab, scd = schwarz(a, b), schwarz(c, d)
        scale = sab[:, :, None, None] * scd[None, None, :, :] + 1e-300
        gb = cm.build(shells)
        out = cm.call(ElectronRepulsionIntegral.construct_array_contraction, *gb)
        evals += 1
        info["A_given"] = amp(shells[:2], shells[2:])
        info["A_swapped"] = amp(shells[2:], shells[:2])
        info["A_total"], info["A_transfer"], info["A_horizontal"] = amp_total(shells)
        if isinstance(out, cm.Raised):
            viols.append(cm.unexpected(out, "ElectronRepulsionIntegral.construct_array_contraction", **info))
        else:
            want_shape = tuple(x for s in rs for x in (s.M, s.ncart))
            sv = cm.shape_violation(out, want_shape, "ERI kernel")
            if sv:
                viols.append(sv)
            else:
                norm = 1.0
                blk = np.array(out)
                for ax, s in enumerate(rs):
                    shp = [1] * 8
                    shp[2 * ax], shp[2 * ax + 1] = s.M, s.ncart
                    blk = blk * s.cont_norm.reshape(shp)
                blk = blk.reshape(ref.shape)
                if not float((np.abs(blk - ref) / scale).max()) <= TOL:  # error of the documented orientation policy, for the classifier
                    pb = policy_block(shells, cm.build(shells))
                    if pb is not None:
                        for ax, s in enumerate(rs):
                            shp = [1] * 8
                            shp[2 * ax], shp[2 * ax + 1] = s.M, s.ncart
                            pb = pb * s.cont_norm.reshape(shp)
                        far = scale < FAR * max(float(scale.max()), 1e-2)
                        with np.errstate(all="ignore"):
                            pe = np.where(far, 0.0, np.abs(pb.reshape(ref.shape) - ref) / scale)
                        info["policy_err"] = float(pe.max()) if np.all(np.isfinite(pe)) else 1e300
                judge_eri(blk, ref, scale, "ERI block (%s; amplification exponent of the evaluated orientation %.1f, of the swapped one %.1f)" % (
                    "".join("spdf"[l] for l in info["ls"]), info["A_given"], info["A_swapped"]), "eri_kernel", viols, errs, info)
        nontrivial = sum(info["ls"]) >= 1 and float((np.abs(ref) / scale).max()) > 1e-8
        if "ill:" in "".join(case["classes"]):
            nontrivial = True
    else:
        ref = gto.eri(rs)
        n = ref.shape[0]
        dg = np.sqrt(np.abs(ref.reshape(n * n, n * n).diagonal()).reshape(n, n))
        scale = dg[:, :, None, None] * dg[None, None, :, :] + 1e-300
        chem = cm.call(electron_repulsion_integral, cm.build(shells), notation="chemist")
        offs = gto.offsets(rs)
        judge_eri(chem, ref, scale, "electron_repulsion_integral(notation='chemist')", "eri_chemist", viols, errs, info, locate=(offs, shells, "chemist"))
        phys = cm.call(electron_repulsion_integral, cm.build(shells), notation="physicist")
        dflt = cm.call(electron_repulsion_integral, cm.build(shells))
        evals += 3
        judge_eri(phys, ref.transpose(0, 2, 1, 3), scale.transpose(0, 2, 1, 3), "electron_repulsion_integral(notation='physicist')", "eri_physicist", viols, errs, info, locate=(offs, shells, "physicist"))
        if isinstance(chem, np.ndarray) and isinstance(phys, np.ndarray):
            evals += 1
            if phys.shape != chem.transpose(0, 2, 1, 3).shape or not np.array_equal(phys, chem.transpose(0, 2, 1, 3)):
                viols.append(cm.viol("physicists' array is not the chemists' array with the two middle indices exchanged", "conventions", **info))
        if isinstance(dflt, np.ndarray) and isinstance(phys, np.ndarray) and not np.array_equal(dflt, phys):
            viols.append(cm.viol("default notation differs from 'physicist'", "default_notation"))
        nontrivial = sum(info["ls"]) >= 1
    return {"evals": evals, "nontrivial": bool(nontrivial), "classes": case["classes"], "errs": errs, "violations": viols,
            "info": {k: v for k, v in info.items() if k != "ls"}}


A0 = 22.0
EPS = 1.1e-16


def classify(case, v):
    """Mechanism keys.

    C04/recursion-amplification: rounding amplified by the electron-transfer and horizontal recursions (see
    amp_total). Accepted only when the quartet's amplification exponent in its BEST orientation is >= A0 = 22 (every
    deviation above 1e-6 seen in calibration had A >= 24.5), the deviation is within the envelope 1e4*eps*exp(A) the
    mechanism can explain, and below 1e-2 of the Schwarz scale. Anything else is a VIOLATION.
    C04/far-field-cancellation: elements whose Schwarz scale is below 1e-9 of the natural scale (functions tens of
    bohr apart) lose relative accuracy; accepted only while the ABSOLUTE error stays below 1e-15 of the largest
    element of the array.
    """
    q = v.get("qty", "")
    if q.endswith("_farfield"):
        if v.get("abs_err") is not None and v["abs_err"] <= 1e-15 * max(v.get("ref_max", 0.0), 1e-2) and v.get("schwarz", 1.0) < FAR * max(v.get("schwarz_max", 0.0), 1e-2):
            return "C04/far-field-cancellation"
        return None
    A = v.get("A_total")
    if q in ("eri_kernel", "eri_chemist", "eri_physicist") and A is not None:
        if A >= A0 and v.get("err", 1.0) <= min(1e-2, 1e4 * EPS * float(np.exp(min(A, 60.0)))):
            # ... and the library is not much worse than its own kernel in the documented orientation (see policy_block)
            if v.get("policy_err") is None or v.get("err", 1.0) <= 10.0 * v["policy_err"]:
                return "C04/recursion-amplification"
    return None


def summarize(cases, results, counts, lists, tier):
    tup = {x for c in cases for x in c["classes"] if x.startswith("ls:")}
    b = lists.get("boys", [])
    out = {"enumerated": {"angular-momentum 4-tuples 0..3": "%d of 256" % len(tup), "ill-conditioned quartets": "%d (x6 arrangements) + %d four-centre (x8)" % (len(ILL), len(ILL4))},
           "bound": "1e-6 * sqrt((ab|ab)(cd|cd))"}
    worst = sorted(((r.get("errs", {}).get("eri_kernel", 0.0), r["cid"], r.get("info", {})) for r in results), key=lambda x: -x[0])[:5]
    out["worst_kernel_cases"] = [{"err": w[0], "cid": w[1], **w[2]} for w in worst]
    if b:
        out["boys_observed"] = {"max_order": max(x[0] for x in b), "max_argument": max(x[2] for x in b)}
    return out
