"""C09 spherical / mixed / transformed / custom-convention results derive from the Cartesian ones."""
import itertools

import numpy as np

from vmon.gen import bases
from vmon.props import common as cm

ID = "C09"
OWNS = ("C09",)
TOL = 1e-10
RULE = (
    "Two monitors. (1) labelled dummy blocks: concrete subclasses of BaseOneIndex / BaseTwoIndexSymmetric / "
    "BaseTwoIndexAsymmetric / BaseFourIndexSymmetric whose construct_array_contraction returns rank-3 sums of outer "
    "products of per-shell label vectors (unique value per shell, segment, component; trailing axes of size none/1/2), "
    "real shell objects with norm_cont overwritten by distinct labels and, in half of the cases, custom component "
    "orders/signs; expected array = the same outer products of U = concat_s C_s (norm_s * u_s); enumerated: every "
    "(l in 0..3, M in 1..3, cartesian|spherical) assignment for 1-2 shells in the quick tier (+ samples of 3-4), for 1-4 "
    "shells (one/two-index) and 1-3 shells (four-index) in the thorough tier; all four entry points "
    "construct_array_cartesian/_spherical/_mix/_lincomb (rectangular T), both sides of the asymmetric class. (2) real "
    "kernels: every public one-, two- and four-index function (and density/ESP/stress through the density matrix) is "
    "called on all-Cartesian shells and on the typed shells; typed = kron(I_M, T_shell) applied to every basis index with "
    "T_shell the matrix the shell itself reports; transform=T = untransformed with T on every basis index; shells "
    "reporting permuted Cartesian order and permuted/sign-flipped spherical labels (every permutation/sign for l<=1, "
    "random for l<=3, HORTON and PySCF conventions) = default arrays permuted/signed. Bound 1e-10 of the array maximum. "
    "non-trivial = at least one spherical shell with l>=1 (dummy) / l>=2 or custom convention (real)."
)
FLOOR = {"quick": 30, "thorough": 120}
DECIDING = ["eval:overlap_integral", "eval:electron_repulsion_integral", "eval:evaluate_basis", "eval:generate_transformation"]
REQUIRED_LINES = [
    ("gbasis/base_one.py", "def construct_array_mix"),
    ("gbasis/base_two_symm.py", "if type_two == \"spherical\":"),
    ("gbasis/base_two_asymm.py", "array = self.construct_array_mix(coord_type_one, coord_type_two, **kwargs)"),
    ("gbasis/base_four_symm.py", "array = self.construct_array_mix(coord_type, **kwargs)"),
]
ASSUMPTIONS = ["the per-shell matrix is the one generate_transformation returns for the conventions the shell reports (C10 decides that matrix separately)"]
EXHAUSTIVE = False

SHAPES = [(l, M) for l in range(4) for M in range(1, 4)]


# --------------------------------------------------------------------------------- custom convention shells
def make_custom_class():
    from gbasis.contractions import GeneralizedContractionShell

    class CustomShell(GeneralizedContractionShell):
        """reports its Cartesian components / spherical labels in another order and sign convention"""

        _cart_perm = None
        _sph_labels = None

        @property
        def angmom_components_cart(self):
            base = GeneralizedContractionShell.angmom_components_cart.fget(self)
            return base if self._cart_perm is None else base[np.array(self._cart_perm)]

        @property
        def angmom_components_sph(self):
            if self._sph_labels is None:
                return GeneralizedContractionShell.angmom_components_sph.fget(self)
            return tuple(self._sph_labels)

    return CustomShell


def default_sph(l):
    if l == 1:
        return ["c1", "s1", "c0"]
    return ["s%d" % m for m in range(l, 0, -1)] + ["c%d" % m for m in range(l + 1)]


def convention(rng, l, kind):
    n = (l + 1) * (l + 2) // 2
    base = default_sph(l)
    if kind == "default":
        return None, None
    if kind == "horton":
        import itertools as it

        from vmon.ref import gto

        order = [(i.count(0), i.count(1), i.count(2)) for i in it.combinations_with_replacement(range(3), l)]
        dflt = gto.cart_components(l)
        perm = [dflt.index(c) for c in order]
        if l == 1:
            labs = ["c1", "s1", "c0"]
        else:
            labs = ["c0"] + [x for m in range(1, l + 1) for x in ("c%d" % m, "s%d" % m)]
        return perm, labs
    if kind == "orca-sign":
        labs = [("-" + x if int(x[1:]) >= 3 else x) for x in base]
        return None, labs
    perm = [int(i) for i in rng.permutation(n)]
    sp = rng.permutation(2 * l + 1)
    labs = [("-" if rng.random() < 0.5 else "") + base[i] for i in sp]
    return perm, labs


def build_shells(shells, convs, types=None):
    """gbasis shells; convs[i] = (cart_perm, sph_labels) or (None, None)"""
    from gbasis.contractions import GeneralizedContractionShell

    Custom = make_custom_class()
    out = []
    shared = {}
    for i, s in enumerate(shells):
        t = (types[i] if types else s["t"])
        perm, labs = convs[i] if convs else (None, None)
        key = (s["dup_key"], t) if s.get("dup_key") is not None else None
        if key is not None and key in shared:  # the same shell OBJECT listed twice (bases.add_dup)
            out.append(shared[key])
            continue
        if perm is None and labs is None:
            sh = GeneralizedContractionShell(int(s["l"]), np.array(s["c"], float), np.array(s["k"], float), np.array(s["e"], float), bases.TYPES[t])
        else:
            sh = Custom.__new__(Custom)
            sh._cart_perm, sh._sph_labels = perm, labs
            Custom.__init__(sh, int(s["l"]), np.array(s["c"], float), np.array(s["k"], float), np.array(s["e"], float), bases.TYPES[t])
        out.append(sh)
        if key is not None:
            shared[key] = sh
    return out


class _FakeMolBasis:
    def __init__(self, shells, conventions):
        self.shells, self.conventions, self.primitive_normalization = shells, conventions, "L2"


class _FakeShell:
    def __init__(self, icenter, l, kind, exps, coeffs):
        self.icenter, self.angmoms, self.kinds, self.exponents, self.coeffs, self.ncon = icenter, [l], [kind], exps, coeffs, 1


def build_via_wrappers(shells, types, which, rng):
    """The real IODataShell / PyscfShell classes, obtained by driving from_iodata / from_pyscf with duck-typed
    IOData / Mole objects (neither package is installed; a stub iodata.convert module provides the identity
    convert_to_segmented). Only the first coefficient column of every shell is used (both wrappers are segmented)."""
    import sys
    import types as _types

    from gbasis.wrappers import from_iodata, from_pyscf
    from vmon.ref import gto

    if which == "pyscf":
        class Mole:  # noqa: D401 - from_pyscf checks the class name
            pass

        mol = Mole()
        mol.cart = all(t == "c" for t in types)
        mol._atom = [("X%d" % i, tuple(s["c"])) for i, s in enumerate(shells)]
        mol._basis = {"X%d" % i: [[s["l"]] + [[e, row[0]] for e, row in zip(s["e"], s["k"])]] for i, s in enumerate(shells)}
        return list(from_pyscf(mol)), (["c"] * len(shells) if mol.cart else ["p"] * len(shells))
    if "iodata" not in sys.modules:
        pkg = _types.ModuleType("iodata")
        conv = _types.ModuleType("iodata.convert")
        conv.convert_to_segmented = lambda obasis: obasis
        pkg.convert = conv
        sys.modules["iodata"], sys.modules["iodata.convert"] = pkg, conv
    conventions = {}
    for l in range(0, 8):
        order = gto.cart_components(l)
        perm = [int(i) for i in rng.permutation(len(order))]
        conventions[(l, "c")] = ["x" * order[i][0] + "y" * order[i][1] + "z" * order[i][2] if l else "1" for i in perm]
        base = default_sph(l)
        sp = rng.permutation(2 * l + 1)
        conventions[(l, "p")] = [("-" if rng.random() < 0.5 else "") + base[i] for i in sp]

    class IOData:  # noqa: D401 - from_iodata checks the class name
        pass

    mol = IOData()
    mol.atcoords = np.array([s["c"] for s in shells], dtype=float)
    fs = [_FakeShell(i, s["l"], t, np.array(s["e"], float), np.array([[row[0]] for row in s["k"]], float)) for i, (s, t) in enumerate(zip(shells, types))]
    mol.obasis = _FakeMolBasis(fs, conventions)
    return list(from_iodata(mol)), list(types)


def shell_matrix(sh, t):
    """matrix from the shell's Cartesian functions (as the shell orders them) to its functions of type t"""
    from gbasis.spherical import generate_transformation

    M = sh.num_seg_cont
    if t == "c":
        return np.eye(M * sh.num_cart)
    T = generate_transformation(sh.angmom, sh.angmom_components_cart, sh.angmom_components_sph, "left")
    return np.kron(np.eye(M), T)


def block_diag(mats):
    import scipy.linalg as sl

    return sl.block_diag(*mats)


def relation_to_default(sh, t):
    """Q with f_custom = Q f_default for the functions of one shell (signed permutation), from the labels."""
    from vmon.ref import gto

    M = sh.num_seg_cont
    l = sh.angmom
    if t == "c":
        dflt = gto.cart_components(l)
        mine = [tuple(int(v) for v in c) for c in sh.angmom_components_cart]
        P = np.zeros((len(mine), len(dflt)))
        for i, c in enumerate(mine):
            P[i, dflt.index(c)] = 1.0
    else:
        dflt = default_sph(l)
        mine = list(sh.angmom_components_sph)
        P = np.zeros((len(mine), len(dflt)))
        for i, lab in enumerate(mine):
            sg = -1.0 if lab.startswith("-") else 1.0
            P[i, dflt.index(lab.lstrip("-"))] = sg
    return np.kron(np.eye(M), P)


def apply(mat_list, arr, axes):
    """apply block-diagonal matrix to each listed axis of arr"""
    Q = block_diag(mat_list) if isinstance(mat_list, list) else mat_list
    for ax in axes:
        arr = np.moveaxis(np.tensordot(Q, arr, (1, ax)), 0, ax)
    return arr


# --------------------------------------------------------------------------------- case generation
def gen_cases(tier, seed):
    cases = []
    opts = [(l, M, t) for (l, M) in SHAPES for t in "cp"]
    # ---- dummy blocks
    for cls in ("one", "two", "asym", "four"):
        nmax_full = 2 if tier == "quick" else (3 if cls == "four" else 3)
        for n in range(1, nmax_full + 1):
            combos = list(itertools.product(range(len(opts)), repeat=n))
            chunk = 144 if cls != "four" else (48 if n < 3 else 24)
            if n == 3 and cls != "four":
                chunk = 288
            for k in range(0, len(combos), chunk):
                cases.append({"kind": "dummy", "cls": cls, "n": n, "start": k, "count": min(chunk, len(combos) - k), "seed": [seed, cls, n, k],
                              "classes": ["dummy:" + cls, "nsh:%d" % n], "cost": chunk * (n ** (4 if cls == "four" else 2)) * (4 if cls == "four" else 1) / 10})
        # sampled larger n
        nbig = [3, 4] if tier == "quick" else ([4] if cls != "four" else [])
        for n in nbig:
            if cls == "four" and n == 4:
                continue
            reps = 6 if tier == "quick" else 40
            for k in range(reps):
                cases.append({"kind": "dummy-random", "cls": cls, "n": n, "count": 40 if cls != "four" else 6, "seed": [seed, cls, n, "r", k],
                              "classes": ["dummy:" + cls, "nsh:%d" % n, "sampled"], "cost": 40 * n ** 2 if cls != "four" else 6 * n ** 4})
    # ---- real kernels
    nreal = 40 if tier == "quick" else 240
    for i in range(nreal):
        rng = bases.rng_for("C09", seed, tier, "real", i)
        nsh = 1 + i % 4
        heavy = i % 4 == 3  # four-index case: keep it small
        lmax = 2 if heavy else 4
        ls = [int(x) for x in rng.integers(0, lmax + 1, size=nsh)]
        if not heavy:
            ls[0] = 2 + i % 3
        pats = bases.type_patterns(nsh)
        tp = list(pats[(i // 4) % len(pats)])
        if "p" not in tp:
            tp[0] = "p"
        shells, classes = bases.rand_basis(rng, ls, types=tp, scale=1.0, emax_fn=lambda l: 20.0, Kmax=2, Mmax=3)
        conv = ["default", "random", "horton", "orca-sign", "random", "iodata", "pyscf"][i % 7]
        cases.append({"kind": "real", "shells": shells, "conv": conv, "eri": heavy or sum(bases.nfunc(s, "c") for s in shells) <= 14, "seed": [seed, i],
                      "classes": classes + ["real", "conv:" + conv, "types:" + "".join(tp)],
                      "cost": 30 + (sum(bases.nfunc(s, "c") for s in shells) ** 4 / 30 if heavy else 50)})
    for c in bases.dup_variants("C09", seed, tier, [c for c in cases if c["kind"] == "real" and c["conv"] not in ("iodata", "pyscf")], 3):
        # one shell listed twice as the same object; keep the coordinate types as they are half of the time
        c["eri"] = sum(bases.nfunc(s, "c") for s in c["shells"]) <= 14
        cases.append(c)
    # every permutation / sign convention for l<=1 on real kernels
    for l in (0, 1):
        cases.append({"kind": "real-allconv", "l": l, "seed": [seed, l], "classes": ["real", "allconv:l%d" % l], "cost": 200})
    return cases


# --------------------------------------------------------------------------------- dummy-block machinery
def dummy_classes():
    from gbasis.base_four_symm import BaseFourIndexSymmetric
    from gbasis.base_one import BaseOneIndex
    from gbasis.base_two_asymm import BaseTwoIndexAsymmetric
    from gbasis.base_two_symm import BaseTwoIndexSymmetric

    def lab(s, key):
        return s._labels[key]

    class One(BaseOneIndex):
        @staticmethod
        def construct_array_contraction(contractions, extra=None):
            u = lab(contractions, "u")  # (R, M, L)
            x = extra if extra is not None else np.ones((u.shape[0],))
            if extra is None:
                return np.einsum("rml,r->ml", u, x)
            return np.einsum("rml,re->mle", u, x)

    class Two(BaseTwoIndexSymmetric):
        @staticmethod
        def construct_array_contraction(contractions_one, contractions_two, extra=None):
            u, v = lab(contractions_one, "u"), lab(contractions_two, "u")
            if extra is None:
                return np.einsum("rml,rnk->mlnk", u, v)
            return np.einsum("rml,rnk,re->mlnke", u, v, extra)

    class Asym(BaseTwoIndexAsymmetric):
        @staticmethod
        def construct_array_contraction(contractions_one, contractions_two, extra=None):
            u, v = lab(contractions_one, "u"), lab(contractions_two, "w")
            if extra is None:
                return np.einsum("rml,rnk->mlnk", u, v)
            return np.einsum("rml,rnk,re->mlnke", u, v, extra)

    class Four(BaseFourIndexSymmetric):
        @staticmethod
        def construct_array_contraction(cont_one, cont_two, cont_three, cont_four, extra=None):
            a, b, c, d = (lab(x, "u") for x in (cont_one, cont_two, cont_three, cont_four))
            if extra is None:
                return np.einsum("rab,rcd,ref,rgh->abcdefgh", a, b, c, d, optimize=True)
            return np.einsum("rab,rcd,ref,rgh,rx->abcdefghx", a, b, c, d, extra, optimize=True)

    return {"one": One, "two": Two, "asym": Asym, "four": Four}


def labelled_shells(rng, spec, custom):
    """spec: list of (l, M, t). Real shell objects with label arrays and norm_cont overwritten."""
    from gbasis.contractions import GeneralizedContractionShell

    Custom = make_custom_class()
    out = []
    for (l, M, t) in spec:
        coeffs = np.ones((1, M))
        if custom and l >= 1:
            perm, labs = convention(rng, l, "random")
            sh = Custom.__new__(Custom)
            sh._cart_perm, sh._sph_labels = perm, labs
            Custom.__init__(sh, l, np.zeros(3), coeffs, np.ones(1), bases.TYPES[t])
        else:
            sh = GeneralizedContractionShell(l, np.zeros(3), coeffs, np.ones(1), bases.TYPES[t])
        L = sh.num_cart
        sh.norm_cont = rng.uniform(0.5, 2.0, size=(M, L))
        sh._labels = {"u": rng.normal(size=(3, M, L)), "w": rng.normal(size=(3, M, L))}
        out.append(sh)
    return out


def U_vector(shells, types, key):
    """(R, K) vectors: concat_s C_s (norm_s * label_s) flattened segment-major"""
    parts = []
    for sh, t in zip(shells, types):
        lab = sh._labels[key] * sh.norm_cont[None, :, :]
        flat = lab.reshape(lab.shape[0], -1)  # (R, M*L) segment-major
        C = shell_matrix(sh, t)
        parts.append(flat @ C.T)
    return np.concatenate(parts, axis=1)


def expected_dummy(cls, shells1, types1, extra, shells2=None, types2=None, T1=None, T2=None):
    U = U_vector(shells1, types1, "u")
    if T1 is not None:
        U = U @ T1.T
    if cls == "one":
        return np.einsum("ri,r->i", U, np.ones(3)) if extra is None else np.einsum("ri,re->ie", U, extra)
    if cls == "two":
        return np.einsum("ri,rj->ij", U, U) if extra is None else np.einsum("ri,rj,re->ije", U, U, extra)
    if cls == "asym":
        W = U_vector(shells2, types2, "w")
        if T2 is not None:
            W = W @ T2.T
        return np.einsum("ri,rj->ij", U, W) if extra is None else np.einsum("ri,rj,re->ije", U, W, extra)
    return np.einsum("ri,rj,rk,rl->ijkl", U, U, U, U, optimize=True) if extra is None else np.einsum("ri,rj,rk,rl,re->ijkle", U, U, U, U, extra, optimize=True)


def check_dummy(cls, spec, rng, viols, errs, custom):
    """All four entry points for one shape assignment. Returns number of comparisons."""
    classes = dummy_classes()
    shells = labelled_shells(rng, spec, custom)
    types = [t for (_, _, t) in spec]
    ne = [None, 1, 2][int(rng.integers(3))]
    extra = None if ne is None else rng.normal(size=(3, ne))
    kw = {} if extra is None else {"extra": extra}
    full = [bases.TYPES[t] for t in types]
    n = 0

    def judge(out, want, what):
        nonlocal n
        n += 1
        if isinstance(out, cm.Raised):
            viols.append(cm.viol("%s raised %s: %s for shapes %s" % (what, out.type, out.msg, spec), "dummy_exception", cls=cls, spec=[list(x) for x in spec], entry=what))
            return
        if not isinstance(out, np.ndarray) or out.shape != want.shape:
            viols.append(cm.viol("%s returned shape %s, expected %s for shapes %s" % (what, getattr(out, "shape", None), want.shape, spec), "dummy_shape", cls=cls, spec=[list(x) for x in spec], entry=what))
            return
        sc = float(np.abs(want).max()) + 1e-300
        e = float(np.abs(out - want).max()) / sc
        errs["dummy_" + cls] = max(errs.get("dummy_" + cls, 0.0), e)
        if not e <= TOL:
            viols.append(cm.viol("%s on labelled dummy blocks differs from the expected assembly by %.3e (shapes (l,M,type)=%s, trailing axis %s%s)" % (what, e, spec, ne, ", custom conventions" if custom else ""),
                                 "dummy_" + cls, e, TOL, cls=cls, spec=[list(x) for x in spec], entry=what))

    if cls == "asym":
        k = max(1, len(spec) // 2) if len(spec) > 1 else 1
        s1, t1 = shells[:k], types[:k]
        s2, t2 = (shells[k:], types[k:]) if len(spec) > 1 else (labelled_shells(rng, spec, custom), types)
        obj = classes["asym"](s1, s2)
        f1, f2 = [bases.TYPES[t] for t in t1], [bases.TYPES[t] for t in t2]
        judge(cm.call(obj.construct_array_mix, f1, f2, **kw), expected_dummy("asym", s1, t1, extra, s2, t2), "BaseTwoIndexAsymmetric.construct_array_mix")
        judge(cm.call(obj.construct_array_cartesian, **kw), expected_dummy("asym", s1, ["c"] * len(s1), extra, s2, ["c"] * len(s2)), "BaseTwoIndexAsymmetric.construct_array_cartesian")
        judge(cm.call(obj.construct_array_spherical, **kw), expected_dummy("asym", s1, ["p"] * len(s1), extra, s2, ["p"] * len(s2)), "BaseTwoIndexAsymmetric.construct_array_spherical")
        n1 = U_vector(s1, t1, "u").shape[1]
        n2 = U_vector(s2, t2, "w").shape[1]
        T1 = rng.normal(size=(max(1, n1 + int(rng.integers(-1, 3))), n1))
        T2 = rng.normal(size=(max(1, n2 + int(rng.integers(-1, 3))), n2))
        judge(cm.call(obj.construct_array_lincomb, T1, T2, f1, f2, **kw), expected_dummy("asym", s1, t1, extra, s2, t2, T1, T2), "BaseTwoIndexAsymmetric.construct_array_lincomb")
        judge(cm.call(obj.construct_array_lincomb, None, T2, f1, f2, **kw), expected_dummy("asym", s1, t1, extra, s2, t2, None, T2), "BaseTwoIndexAsymmetric.construct_array_lincomb(transform_one=None)")
        judge(cm.call(obj.construct_array_lincomb, T1, None, f1, f2, **kw), expected_dummy("asym", s1, t1, extra, s2, t2, T1, None), "BaseTwoIndexAsymmetric.construct_array_lincomb(transform_two=None)")
        return n
    obj = classes[cls](shells)
    name = type(obj).__mro__[1].__name__
    judge(cm.call(obj.construct_array_mix, full, **kw), expected_dummy(cls, shells, types, extra), name + ".construct_array_mix")
    judge(cm.call(obj.construct_array_cartesian, **kw), expected_dummy(cls, shells, ["c"] * len(spec), extra), name + ".construct_array_cartesian")
    judge(cm.call(obj.construct_array_spherical, **kw), expected_dummy(cls, shells, ["p"] * len(spec), extra), name + ".construct_array_spherical")
    nf = U_vector(shells, types, "u").shape[1]
    T = rng.normal(size=(max(1, nf + int(rng.integers(-2, 3))), nf))
    judge(cm.call(obj.construct_array_lincomb, T, full, **kw), expected_dummy(cls, shells, types, extra, T1=T), name + ".construct_array_lincomb")
    if len(set(types)) == 1 and len(spec) >= 2:
        # documented shorthand: a one-entry list applies to every shell; the caller's list must stay a one-entry list
        one = [full[0]]
        judge(cm.call(obj.construct_array_lincomb, T, one, **kw), expected_dummy(cls, shells, types, extra, T1=T), name + ".construct_array_lincomb(one-entry coord_type)")
        if one != [full[0]]:
            viols.append(cm.viol("%s.construct_array_lincomb modified the caller's one-entry coord_type list: %r" % (name, one), "dummy_argument_mutated", cls=cls))
    return n


# --------------------------------------------------------------------------------- real kernels
def real_quantities(with_eri):
    from gbasis.evals.eval import evaluate_basis
    from gbasis.evals.eval_deriv import evaluate_deriv_basis
    from gbasis.integrals.angular_momentum import angular_momentum_integral
    from gbasis.integrals.electron_repulsion import electron_repulsion_integral
    from gbasis.integrals.kinetic_energy import kinetic_energy_integral
    from gbasis.integrals.moment import moment_integral
    from gbasis.integrals.momentum import momentum_integral
    from gbasis.integrals.nuclear_electron_attraction import nuclear_electron_attraction_integral
    from gbasis.integrals.overlap import overlap_integral
    from gbasis.integrals.point_charge import point_charge_integral

    pts = np.array([[0.1, 0.2, 0.3], [-0.4, 0.5, 0.0], [0.0, 0.0, 0.0], [1.1, -0.7, 0.2]])
    q = np.array([1.0, -2.0, 0.5, 3.0])
    Q = [
        ("evaluate_basis", lambda b, **k: evaluate_basis(b, pts, **k), (0,)),
        ("evaluate_deriv_basis(general)", lambda b, **k: evaluate_deriv_basis(b, pts, np.array([1, 2, 0]), **k), (0,)),
        ("evaluate_deriv_basis(direct)", lambda b, **k: evaluate_deriv_basis(b, pts, np.array([2, 0, 1]), deriv_type="direct", **k), (0,)),
        ("overlap_integral", lambda b, **k: overlap_integral(b, **k), (0, 1)),
        ("overlap_integral(tol_screen)", lambda b, **k: overlap_integral(b, tol_screen=1e-6, **k), (0, 1)),
        ("kinetic_energy_integral", lambda b, **k: kinetic_energy_integral(b, **k), (0, 1)),
        ("nuclear_electron_attraction_integral", lambda b, **k: nuclear_electron_attraction_integral(b, pts, q, **k), (0, 1)),
        ("point_charge_integral", lambda b, **k: point_charge_integral(b, pts, q, **k), (0, 1)),
        ("moment_integral", lambda b, **k: moment_integral(b, np.array([0.2, -0.1, 0.4]), np.array([[1, 0, 0], [0, 2, 1], [0, 0, 0]]), **k), (0, 1)),
        ("momentum_integral", lambda b, **k: momentum_integral(b, **k), (0, 1)),
        ("angular_momentum_integral", lambda b, **k: angular_momentum_integral(b, **k), (0, 1)),
    ]
    if with_eri:
        Q.append(("electron_repulsion_integral(chemist)", lambda b, **k: electron_repulsion_integral(b, notation="chemist", **k), (0, 1, 2, 3)))
        Q.append(("electron_repulsion_integral(physicist)", lambda b, **k: electron_repulsion_integral(b, **k), (0, 1, 2, 3)))
    return Q, pts, q


def check_real(shells, convs, with_eri, rng, viols, errs, tag):
    from gbasis.evals import density as D
    from gbasis.evals import stress_tensor as ST
    from gbasis.evals.electrostatic_potential import electrostatic_potential
    from gbasis.integrals.overlap_asymm import overlap_integral_asymmetric

    types = [s["t"] for s in shells]
    n = 0
    Q, pts, q = real_quantities(with_eri)
    if tag.endswith("iodata") or tag.endswith("pyscf"):
        which = "iodata" if tag.endswith("iodata") else "pyscf"
        st = rng.bit_generator.state
        cart, _ = build_via_wrappers(shells, ["c"] * len(shells), which, rng)
        rng.bit_generator.state = st  # same random conventions for both builds
        typed, types = build_via_wrappers(shells, types, which, rng)
        dflt = typed
        convs = None
    else:
        cart = build_shells(shells, convs, ["c"] * len(shells))
        typed = build_shells(shells, convs, types)
        dflt = build_shells(shells, None, types)
    Cs = [shell_matrix(sh, t) for sh, t in zip(typed, types)]
    Rs = [relation_to_default(sh, t) for sh, t in zip(typed, types)]
    nf = sum(c.shape[0] for c in Cs)
    T = rng.normal(size=(max(1, nf + int(rng.integers(-2, 3))), nf))
    Tnear = np.eye(nf) * (1.0 + float(rng.choice([5e-6, -3e-6, 2e-7]))) + np.diag(1e-6 * rng.normal(size=nf)) + 1e-9 * rng.normal(size=(nf, nf))

    # natural magnitude of momentum-type arrays (they vanish by symmetry for a single centre: pure rounding noise)
    from gbasis.integrals.kinetic_energy import kinetic_energy_integral as _kin

    _t = cm.call(_kin, cart)
    gfl = float(np.sqrt(2 * np.abs(np.diag(_t)).max())) if isinstance(_t, np.ndarray) else 1.0
    rfl = 1.0 + max(float(np.abs(np.array(s_["c"])).max()) for s_ in shells)

    tmax2 = [1.0]  # square of the largest coefficient of the transformation being judged (other data types)

    def judge(out, want, what, qty):
        nonlocal n
        n += 1
        if isinstance(out, cm.Raised) or isinstance(want, cm.Raised):
            bad = out if isinstance(out, cm.Raised) else want
            viols.append(cm.unexpected(bad, what))
            return
        if out.shape != want.shape:
            viols.append(cm.viol("%s: shape %s vs %s" % (what, out.shape, want.shape), qty + "_shape"))
            return
        fl = gfl * rfl * float(np.abs(T).max() ** 2 if "with transform" in what else tmax2[0]) if "momentum_integral" in what else 0.0
        if "overlap_integral_asymmetric" in what:
            fl = 1.0  # only the off-diagonal block is returned: for far-apart shells it is ~1e-280, the natural scale is 1
        sc = max(float(np.abs(want).max()), fl) + 1e-300
        e = float(np.abs(out - want).max()) / sc
        errs[qty] = max(errs.get(qty, 0.0), e)
        if not e <= TOL:
            viols.append(cm.viol("%s differs by %.3e of the array maximum (%s)" % (what, e, tag), qty, e, TOL, types="".join(types)))

    for name, fn, axes in Q:
        c = cm.call(fn, cart)
        t = cm.call(fn, typed)
        if not isinstance(c, cm.Raised):
            judge(t, apply(Cs, c, axes), "%s on typed shells vs Cartesian result contracted with the shells' own matrices" % name, "typed_vs_cartesian")
        else:
            viols.append(cm.unexpected(c, name + " (all-Cartesian)"))
        tt = cm.call(fn, typed, transform=T)
        if not isinstance(t, cm.Raised):
            judge(tt, apply(T, t, axes), "%s with transform vs T applied to every basis index" % name, "transform")
            # a transformation close to (and exactly equal to) the identity is still a transformation
            for Tn, nm in ((Tnear, "near-identity"), (np.eye(nf), "identity")):
                tn = cm.call(fn, typed, transform=Tn)
                judge(tn, apply(Tn, t, axes), "%s with a %s transform vs T applied to every basis index" % (name, nm), "transform_" + nm.replace("-", "_"))
            # a transformation stored in another real data type denotes the same numbers: the result is that of its
            # exact float64 image (integer-valued selections/sign flips, single-precision coefficients)
            Ti = np.rint(3.0 * T / (np.abs(T).max() + 1e-300)).astype(np.int64)
            Tf = T.astype(np.float32)
            if np.all(np.isfinite(Tf)) and np.abs(Ti).sum() > 0:
                for Td, nm in ((Ti, "int64"), (Tf, "float32")):
                    td = cm.call(fn, typed, transform=Td)
                    tmax2[0] = max(1.0, float(np.abs(Td).max()) ** 2)
                    judge(td, apply(Td.astype(np.float64), t, axes), "%s with a %s transform vs T applied to every basis index" % (name, nm), "transform_" + nm)
                tmax2[0] = 1.0
            if len(axes) <= 2:
                # complex orbital coefficients: T (not its conjugate) is applied to EVERY basis index
                Tc = T + 1j * np.roll(T, 1, axis=0) * 0.7
                tc = cm.call(fn, typed, transform=Tc)
                judge(tc, apply(Tc, t, axes), "%s with a complex transform vs T applied to every basis index" % name, "transform_complex")
        if convs and any(cv != (None, None) for cv in convs):
            d = cm.call(fn, dflt)
            if not isinstance(d, cm.Raised):
                judge(t, apply(Rs, d, axes), "%s on shells with custom component conventions vs default result permuted/signed" % name, "custom_convention")
    # asymmetric overlap: split the basis
    k = max(1, len(shells) // 2)
    a = cm.call(overlap_integral_asymmetric, typed[:k] if len(shells) > 1 else typed, typed[k:] if len(shells) > 1 else typed)
    ac = cm.call(overlap_integral_asymmetric, cart[:k] if len(shells) > 1 else cart, cart[k:] if len(shells) > 1 else cart)
    if not isinstance(ac, cm.Raised):
        C1 = block_diag(Cs[:k] if len(shells) > 1 else Cs)
        C2 = block_diag(Cs[k:] if len(shells) > 1 else Cs)
        judge(a, C1 @ ac @ C2.T, "overlap_integral_asymmetric on typed shells vs Cartesian", "typed_vs_cartesian")
        T1 = rng.normal(size=(C1.shape[0] + 1, C1.shape[0]))
        T2 = rng.normal(size=(max(1, C2.shape[0] - 1), C2.shape[0]))
        at = cm.call(overlap_integral_asymmetric, typed[:k] if len(shells) > 1 else typed, typed[k:] if len(shells) > 1 else typed, transform_one=T1, transform_two=T2)
        if not isinstance(a, cm.Raised):
            judge(at, T1 @ a @ T2.T, "overlap_integral_asymmetric with two transforms", "transform")
    # density-type quantities through the density matrix: rho(dm, typed) == rho(C^t dm C, cartesian)
    Cfull = block_diag(Cs)
    g = rng.normal(size=(nf, nf))
    dm = g + g.T
    dmc = Cfull.T @ dm @ Cfull
    nuc = np.array([s["c"] for s in shells], dtype=float)
    Z = np.arange(1.0, len(shells) + 1)
    for name, f in (
        ("evaluate_deriv_density", lambda b, m: D.evaluate_deriv_density(np.array([1, 0, 1]), m, b, pts)),
        ("evaluate_density_laplacian", lambda b, m: D.evaluate_density_laplacian(m, b, pts)),
        ("electrostatic_potential", lambda b, m: electrostatic_potential(b, m, pts + 0.05, nuc, Z)),
        ("evaluate_stress_tensor", lambda b, m: ST.evaluate_stress_tensor(m, b, pts, alpha=0.3, beta=0.7)),
    ):
        judge(cm.call(f, typed, dm), cm.call(f, cart, dmc), "%s(dm, typed basis) vs %s(C^t dm C, Cartesian basis)" % (name, name), "density_through_dm")
    return n


def run_case(case):
    viols, errs = [], {}
    evals = 0
    classes = list(case["classes"])
    kind = case["kind"]
    nontrivial = False
    if kind in ("dummy", "dummy-random"):
        opts = [(l, M, t) for (l, M) in SHAPES for t in "cp"]
        rng = bases.rng_for("C09", "dummy", *case["seed"])
        if kind == "dummy":
            combos = itertools.islice(itertools.product(range(len(opts)), repeat=case["n"]), case["start"], case["start"] + case["count"])
        else:
            combos = [tuple(int(x) for x in rng.integers(len(opts), size=case["n"])) for _ in range(case["count"])]
        k = 0
        for combo in combos:
            spec = [opts[i] for i in combo]
            evals += check_dummy(case["cls"], spec, rng, viols, errs, custom=(k % 2 == 1))
            k += 1
            if any(t == "p" and l >= 1 for (l, M, t) in spec):
                nontrivial = True
            if len(viols) > 20:
                break
    elif kind == "real":
        rng = bases.rng_for("C09", "real", *case["seed"])
        shells = case["shells"]
        convs = [convention(rng, s["l"], case["conv"] if case["conv"] not in ("iodata", "pyscf") else "default") for s in shells]
        first = {}
        for j, s in enumerate(shells):  # one object listed twice has one convention
            if s.get("dup_key") is not None:
                convs[j] = convs[first.setdefault(s["dup_key"], j)]
        evals += check_real(shells, convs, case["eri"], rng, viols, errs, "conventions: " + case["conv"])
        nontrivial = any(s["t"] == "p" and s["l"] >= 2 for s in shells) or case["conv"] != "default"
    else:
        # every permutation and sign pattern for l <= 1, one shell of that l next to a d shell
        l = case["l"]
        rng = bases.rng_for("C09", "allconv", *case["seed"])
        ncart = (l + 1) * (l + 2) // 2
        base = default_sph(l)
        shells, _ = bases.rand_basis(rng, [l, 2], types=["p", "c"], scale=0.8, emax_fn=lambda x: 10.0, Kmax=2, Mmax=2)
        for perm in itertools.permutations(range(ncart)):
            for sp in itertools.permutations(range(2 * l + 1)):
                for signs in itertools.product((1, -1), repeat=2 * l + 1):
                    labs = [("-" if sg < 0 else "") + base[i] for i, sg in zip(sp, signs)]
                    for t0 in ("p", "c"):
                        sh = [dict(shells[0], t=t0), shells[1]]
                        evals += check_real_light(sh, [(list(perm), labs), (None, None)], viols, errs)
        nontrivial = l >= 1
    return {"evals": evals, "nontrivial": bool(nontrivial), "classes": classes, "errs": errs, "violations": viols[:12]}


def check_real_light(shells, convs, viols, errs):
    """overlap / evaluation / nuclear only (cheap), custom vs default and typed vs Cartesian."""
    from gbasis.evals.eval_deriv import evaluate_deriv_basis
    from gbasis.integrals.angular_momentum import angular_momentum_integral
    from gbasis.integrals.overlap import overlap_integral

    types = [s["t"] for s in shells]
    typed = build_shells(shells, convs, types)
    dflt = build_shells(shells, None, types)
    cart = build_shells(shells, convs, ["c"] * len(shells))
    Cs = [shell_matrix(sh, t) for sh, t in zip(typed, types)]
    Rs = [relation_to_default(sh, t) for sh, t in zip(typed, types)]
    pts = np.array([[0.1, 0.2, 0.3], [-0.4, 0.5, 0.0]])
    n = 0
    for name, fn, axes in (("overlap_integral", overlap_integral, (0, 1)),
                           ("evaluate_deriv_basis", lambda b: evaluate_deriv_basis(b, pts, np.array([0, 1, 1])), (0,)),
                           ("angular_momentum_integral", angular_momentum_integral, (0, 1))):
        t, d, c = cm.call(fn, typed), cm.call(fn, dflt), cm.call(fn, cart)
        for out, want, q in ((t, None if isinstance(d, cm.Raised) else apply(Rs, d, axes), "custom_convention"),
                             (t, None if isinstance(c, cm.Raised) else apply(Cs, c, axes), "typed_vs_cartesian")):
            n += 1
            if isinstance(out, cm.Raised) or want is None:
                viols.append(cm.viol("%s raised on a custom-convention shell" % name, "custom_exception"))
                continue
            e = float(np.abs(out - want).max()) / (float(np.abs(want).max()) + 1e-300)
            errs[q] = max(errs.get(q, 0.0), e)
            if not e <= TOL and len(viols) < 12:
                viols.append(cm.viol("%s: %s differs by %.3e for conventions %s" % (name, q, e, convs[0]), q, e, TOL))
    return n


def summarize(cases, results, counts, lists, tier):
    full = {}
    for c in cases:
        if c["kind"] == "dummy":
            k = "%s n=%d" % (c["cls"], c["n"])
            full[k] = full.get(k, 0) + c["count"]
    return {"dummy_shape_assignments_enumerated_completely": full,
            "dummy_space": "per shell (l in 0..3) x (M in 1..3) x (cartesian|spherical) = 24 options; each assignment checked on mix, cartesian, spherical and lincomb entry points",
            "bound": "1e-10 of the array maximum"}
