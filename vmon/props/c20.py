"""C20 overlap screening follows the documented cutoff and is conservative."""
import numpy as np

from vmon.gen import bases
from vmon.props import common as cm
from vmon.ref import gto

ID = "C20"
OWNS = ("C20",)
RULE = (
    "bases of 2-5 shells (l 0..3, 1-4 primitives with exponents 0.05..500 so that min != max matters, generalized, "
    "cartesian/spherical per shell) with one shell pair placed at d_cut(1-1e-6) or d_cut(1+1e-6) of a chosen tolerance "
    "and the others at 0-30 bohr; tolerances from 0.5 down to 1e-16 (nine fixed values, two log-uniform random ones per case, a second pair bracketed at a random one) and None; overlap_integral(basis, tol_screen=t) is "
    "observed for every t and the checker decides per shell-pair block: expected status from the model's own cutoff "
    "sqrt(-(a+b)/(ab) ln t) with the SMALLEST exponent of each shell; kept block == unscreened block bitwise, dropped "
    "block exactly 0, None == call without the argument bitwise, dropped sets monotone in t, every dropped s-s element "
    "of the unscreened array < t * sum|c~_a| * sum|c~_b|; with a transform the call must equal T S_screened T^t. "
    "|d/d_cut - 1| < 1e-9 is not judged. non-trivial = at least one block dropped and one off-diagonal block kept at "
    "some tolerance."
)
FLOOR = {"quick": 25, "thorough": 100}
DECIDING = ["eval:overlap_integral", "kernel:Overlap"]
REQUIRED_LINES = [
    ("gbasis/integrals/overlap.py", "return Overlap(basis).construct_array_lincomb(transform, coord_type, **kwargs)"),
    ("gbasis/integrals/overlap.py", "return Overlap(basis).construct_array_mix(coord_type, **kwargs)"),
    ("gbasis/integrals/overlap.py", "return Overlap(basis).construct_array_spherical(**kwargs)"),
    ("gbasis/integrals/overlap.py", "return Overlap(basis).construct_array_cartesian(**kwargs)"),
]
ASSUMPTIONS = ["cutoff formula restated from the documentation of is_integral_screened"]
TOLS = [0.5, 1e-1, 1e-2, 1e-4, 1e-6, 1e-8, 1e-10, 1e-13, 1e-16]


def dcut(a, b, t):
    return float(np.sqrt(-(a + b) / (a * b) * np.log(t)))


def gen_cases(tier, seed):
    n = 192 if tier == "quick" else 3000
    cases = []
    for i in range(n):
        rng = bases.rng_for("C20", seed, tier, i)
        nsh = int(rng.integers(2, 6))
        ls = [int(x) for x in rng.integers(0, 4, size=nsh)]
        if i % 3 == 0:
            ls[0] = ls[1] = 0
        tp = list(bases.type_patterns(nsh)[(i // 2) % (2 ** nsh)]) if i % 2 else (["c"] * nsh if i % 4 == 0 else ["p"] * nsh)
        shells = []
        for l, t in zip(ls, tp):
            s = bases.rand_shell(rng, l, t=t, emin=0.05, emax=500.0, Kmax=4, Mmax=3)
            s.pop("_cls")
            shells.append(s)
        if i % 6 == 0:
            # two uncontracted s shells with different exponents (the simplest pair there is)
            for s_ in shells[:2]:
                j_ = int(np.argmin(s_["e"])) if i % 12 else 0
                s_["e"], s_["k"] = [s_["e"][j_]], [[1.0] * len(s_["k"][0])]
            if abs(shells[0]["e"][0] / shells[1]["e"][0] - 1) < 0.05:
                shells[1]["e"] = [shells[1]["e"][0] * 3.7]
        # geometry: shell 0 at origin-ish; shell 1 at the bracketing distance of a chosen tolerance; others 0..30 bohr
        t0 = float(TOLS[int(rng.integers(len(TOLS)))])
        side = [1 - 1e-6, 1 + 1e-6][i % 2]
        c0 = rng.normal(size=3)
        shells[0]["c"] = [float(v) for v in c0]
        dc = dcut(min(shells[0]["e"]), min(shells[1]["e"]), t0)
        u = rng.normal(size=3)
        u /= np.linalg.norm(u)
        shells[1]["c"] = [float(v) for v in c0 + u * dc * side]
        for s in shells[2:]:
            u = rng.normal(size=3)
            u /= np.linalg.norm(u)
            s["c"] = [float(v) for v in c0 + u * float(rng.choice([0.0, 0.5, 2.0, 5.0, 10.0, 30.0]) * rng.uniform(0.5, 1.0))]
        ntot = sum(bases.nfunc(s) for s in shells)
        T, tcls = bases.rand_transform(rng, ntot, "none" if i % 3 else None)
        xt = [float(np.exp(rng.uniform(np.log(1e-16), np.log(0.5)))) for _ in range(2)]
        if i % 4 == 1:
            # a second pair bracketed at a tolerance that is not on the fixed list
            dc2 = dcut(min(shells[0]["e"]), min(shells[-1]["e"]), xt[0])
            u = rng.normal(size=3)
            u /= np.linalg.norm(u)
            shells[-1]["c"] = [float(v) for v in c0 + u * dc2 * [1 + 1e-6, 1 - 1e-6][(i // 4) % 2]]
        cases.append({"shells": shells, "transform": T, "bracket": [t0, side], "extra_tols": xt,
                      "classes": ["nsh:%d" % nsh, tcls, "types:" + ("mixed" if len(set(tp)) > 1 else tp[0]), "bracket:%s" % ("inside" if side < 1 else "outside")], "cost": nsh * nsh})
    cases += bases.argrep_variants("C20", seed, tier, cases, 6, ok=lambda c: "shells" in c and c.get("kind") in (None, "whole", "kernel", "perm", "real"))  # constructor arguments in other in-memory representations
    return cases


def run_case(case):
    from gbasis.integrals.overlap import overlap_integral

    shells = case["shells"]
    T = None if case["transform"] is None else np.array(case["transform"], dtype=float)
    viols, errs = [], {}
    evals = 0
    rs = cm.rshells(shells)
    offs = gto.offsets(rs)
    n = len(shells)
    amin = [min(s["e"]) for s in shells]
    cen = np.array([s["c"] for s in shells])
    d = np.sqrt(((cen[:, None, :] - cen[None, :, :]) ** 2).sum(axis=2))
    plain = cm.call(overlap_integral, cm.build(shells))
    none = cm.call(overlap_integral, cm.build(shells), tol_screen=None)
    evals += 2
    if isinstance(plain, cm.Raised) or isinstance(none, cm.Raised):
        for x in (plain, none):
            if isinstance(x, cm.Raised):
                viols.append(cm.unexpected(x, "overlap_integral"))
        return {"evals": evals, "nontrivial": False, "classes": case["classes"], "errs": errs, "violations": viols}
    if not np.array_equal(plain, none):
        viols.append(cm.viol("tol_screen=None differs from a call without the argument", "none_vs_plain"))
    # normalised absolute coefficient sums for s shells (model's own normalisation)
    csum = {}
    for i, (s, r) in enumerate(zip(shells, rs)):
        if s["l"] == 0:
            w = np.abs(np.asarray(r.w[:, 0, :], dtype=float) / np.asarray(r.primnorms()[0, :], dtype=float)[None, :])  # (M,K)
            csum[i] = w.sum(axis=1)
    tols = sorted(set(TOLS + [case["bracket"][0]] + list(case.get("extra_tols", []))), reverse=True)
    prev_dropped = None
    any_drop, any_keep = False, False
    for t in tols:
        St = cm.call(overlap_integral, cm.build(shells), tol_screen=float(t))
        evals += 1
        if isinstance(St, cm.Raised):
            viols.append(cm.unexpected(St, "overlap_integral(tol_screen=%g)" % t))
            continue
        if St.shape != plain.shape:
            viols.append(cm.viol("screened overlap has shape %s, unscreened %s" % (St.shape, plain.shape), "shape"))
            continue
        dropped = set()
        for i in range(n):
            for j in range(n):
                blk = (slice(offs[i], offs[i + 1]), slice(offs[j], offs[j + 1]))
                dc = dcut(amin[i], amin[j], t)
                if dc > 0 and abs(d[i, j] / dc - 1) < 1e-9:
                    errs["boundary_skipped"] = errs.get("boundary_skipped", 0.0) + 1
                    continue
                expect_drop = d[i, j] > dc
                is_zero = not np.any(St[blk])
                is_same = np.array_equal(St[blk], plain[blk])
                evals += 1
                if expect_drop:
                    dropped.add((i, j))
                    if i != j:
                        any_drop = True
                    if not is_zero:
                        viols.append(cm.viol("block (%d,%d) at distance %.6f beyond the cutoff %.6f (tol %g) is not exactly zero%s" % (i, j, d[i, j], dc, t, " (it equals the unscreened block)" if is_same else ""),
                                             "not_dropped", tol=t, d=float(d[i, j]), dcut=dc, ratio=float(d[i, j] / dc)))
                    elif i in csum and j in csum:
                        bound = t * np.outer(csum[i], csum[j])
                        if np.any(np.abs(plain[blk]) >= bound):
                            viols.append(cm.viol("dropped s-s element %.3e is not below tol*sum|c|*sum|c| = %.3e" % (np.abs(plain[blk]).max(), bound.min()), "not_conservative", tol=t))
                        errs["s_bound_checks"] = errs.get("s_bound_checks", 0.0) + 1
                else:
                    if i != j:
                        any_keep = True
                    if not is_same:
                        viols.append(cm.viol("block (%d,%d) at distance %.6f within the cutoff %.6f (tol %g) differs from the unscreened block%s" % (i, j, d[i, j], dc, t, " (it is zero)" if is_zero else ""),
                                             "wrongly_dropped" if is_zero else "kept_block_changed", tol=t, d=float(d[i, j]), dcut=dc, ratio=float(d[i, j] / dc)))
        # monotonicity on the OBSERVED zero pattern
        obs_zero = {(i, j) for i in range(n) for j in range(n) if not np.any(St[offs[i]:offs[i + 1], offs[j]:offs[j + 1]]) and np.any(plain[offs[i]:offs[i + 1], offs[j]:offs[j + 1]])}
        if prev_dropped is not None and not obs_zero <= prev_dropped:
            viols.append(cm.viol("lowering the tolerance to %g removed blocks %s that were kept at a larger tolerance" % (t, sorted(obs_zero - prev_dropped)[:4]), "not_monotone", tol=t))
        prev_dropped = obs_zero
        if T is not None:
            Tt = cm.call(overlap_integral, cm.build(shells), transform=T.copy(), tol_screen=float(t))
            evals += 1
            want = T @ St @ T.T
            sc = np.abs(T) @ np.abs(St) @ np.abs(T).T + 1e-300
            cm.compare(Tt, want, 1e-12, "overlap_integral(transform, tol_screen=%g) vs T S_screened T^t" % t, "transformed", viols, errs, scale=sc, tol_screen=t)
    return {"evals": evals, "nontrivial": bool(any_drop and any_keep), "classes": case["classes"], "errs": errs, "violations": viols}


def summarize(cases, results, counts, lists, tier):
    return {"tolerances": TOLS + ["None", "absent"], "boundary_skipped": int(sum(r.get("errs", {}).get("boundary_skipped", 0) for r in results)),
            "s_type_bound_checks": int(sum(r.get("errs", {}).get("s_bound_checks", 0) for r in results))}
