"""C15 stress tensor, Ehrenfest force (= -div sigma), Ehrenfest Hessian (= Jacobian of the force)."""
import numpy as np

from vmon.gen import bases
from vmon.props import common as cm
from vmon.props.c06 import Ref
from vmon.ref import dalgebra as da

ID = "C15"
OWNS = ("C15",)
TOL = 1e-9
RULE = (
    "bases of 1-3 shells (l 0..3, generalized, cartesian/spherical per shell), symmetric density matrices (PSD and "
    "indefinite), 1-20 points, alpha and beta from {0, 1/2, 1} x {0, 1} (ints and floats, the special-cased values) and "
    "random reals incl. negative, absent/square/rectangular transform; the stress tensor is entered in the D-algebra "
    "from its documented (symmetrised) definition, the force is DERIVED as -div sigma and the Hessian as the Jacobian "
    "of the force by the total-derivative rule, all evaluated with reference derivatives; bound 1e-9*conditioning "
    "scale; sigma symmetric; symmetric=True equals (H+H^T)/2 of the observed unsymmetrised call. non-trivial = "
    "non-zero density matrix and a shell with l>=1."
)
FLOOR = {"quick": 25, "thorough": 100}
DECIDING = ["eval:evaluate_stress_tensor", "eval:evaluate_ehrenfest_force", "eval:evaluate_ehrenfest_hessian"]
REQUIRED_LINES = [
    ("gbasis/evals/stress_tensor.py", "if alpha != 0:"),
    ("gbasis/evals/stress_tensor.py", "if alpha != 1:"),
    ("gbasis/evals/stress_tensor.py", "if alpha != 0.5:"),
    ("gbasis/evals/stress_tensor.py", "if beta != 0:"),
    ("gbasis/evals/stress_tensor.py", "if symmetric:"),
]
ASSUMPTIONS = ["reference derivatives from vmon/ref/gto.py; D-algebra validated against finite differences in the self-test"]

AB = [(1, 0), (0, 0), (0.5, 0), (1, 1), (0, 1), (0.5, 1), (1.0, 0.0), (0.0, 1.0), (0.5, 1.0)]


def gen_cases(tier, seed):
    n = 60 if tier == "quick" else 720
    cases = []
    for i in range(n):
        rng = bases.rng_for("C15", seed, tier, i)
        nsh = int(rng.integers(1, 4))
        ls = [int(x) for x in rng.integers(0, 4, size=nsh)]
        if i % 3 == 0:
            ls[0] = 1 + (i // 3) % 3
        tp = list(bases.type_patterns(nsh)[(i // 2) % (2 ** nsh)]) if i % 2 else None
        shells, classes = bases.rand_basis(rng, ls, types=tp, scale=1.0, emax_fn=lambda l: min(bases.cap(l), 100.0), Kmax=3)
        pts, pcls = bases.rand_points(rng, shells, bases.npts_pick(rng, 21))
        ntot = sum(bases.nfunc(s) for s in shells)
        T, tcls = bases.rand_transform(rng, ntot, "none" if i % 3 else None)
        norb = ntot if T is None else len(T)
        dm, dcls = bases.rand_sym(rng, norb, "hollow" if (i % 6 == 3 and (i // 6) % 2 == 1) else ["psd", "indef", "psd-lowrank", "diag-indef", "idempotent", "hollow"][i % 6])  # hollow also together with a transformation
        if i % 2 == 0:
            a, b = AB[(i // 2) % len(AB)]
            abcls = "ab:special"
        else:
            a, b = float(rng.normal() * 1.5), float(rng.normal() * 1.5)
            if i % 6 == 1:
                a = [0, 1, 0.5][(i // 6) % 3]
            if i % 6 == 3:
                b = 0
            abcls = "ab:generic"
        cases.append({"shells": shells, "points": pts, "dm": dm, "transform": T, "alpha": a, "beta": b,
                      "classes": classes + pcls + [tcls, dcls, abcls, "alpha=%r" % a if a in (0, 1, 0.5) else "alpha:real", "beta=0" if b == 0 else "beta:nonzero"],
                      "cost": len(pts) * norb * norb * 30})
    cases += bases.argrep_variants("C15", seed, tier, cases, 6, ok=lambda c: "shells" in c and c.get("kind") in (None, "whole", "kernel", "perm", "real"))  # constructor arguments in other in-memory representations
    return cases


def run_case(case):
    from gbasis.evals import stress_tensor as ST

    shells = case["shells"]
    pts = np.array(case["points"], dtype=float).reshape(-1, 3)
    T = None if case["transform"] is None else np.array(case["transform"], dtype=float)
    dm = np.array(case["dm"], dtype=float)
    a, b = case["alpha"], case["beta"]
    viols, errs = [], {}
    evals = 0
    R = Ref(cm.rshells(shells), pts, T)
    rkind = cm.REPS[(len(pts) + len(dm)) % len(cm.REPS)]  # in-memory representation of the array arguments
    kw = {} if T is None else {"transform": cm.rep(T, rkind)}
    N = len(pts)
    sref, ssc = np.zeros((N, 3, 3)), np.zeros((N, 3, 3))
    href, hsc = np.zeros((N, 3, 3)), np.zeros((N, 3, 3))
    fref, fsc = np.zeros((N, 3)), np.zeros((N, 3))
    for j in range(3):
        fref[:, j], fsc[:, j] = da.evaluate_parts(da.force_parts(j, a, b), dm, R.val, R.sc)
        for k in range(3):
            sref[:, j, k], ssc[:, j, k] = da.evaluate_parts(da.stress_parts(j, k, a, b), dm, R.val, R.sc)
            href[:, j, k], hsc[:, j, k] = da.evaluate_parts(da.ehess_parts(j, k, a, b), dm, R.val, R.sc)
    tag = "(alpha=%r, beta=%r)" % (a, b)
    S = cm.call(ST.evaluate_stress_tensor, cm.rep(dm, rkind), cm.build(shells), cm.rep(pts, rkind), alpha=a, beta=b, **kw)
    cm.compare(S, sref, TOL, "evaluate_stress_tensor" + tag, "stress", viols, errs, scale=ssc + 1e-280, alpha=a, beta=b)
    evals += 1
    if isinstance(S, np.ndarray) and S.shape == (N, 3, 3):
        e = cm.maxerr(S, np.swapaxes(S, 1, 2), ssc + 1e-280)[0]
        errs["stress_symmetric"] = e
        evals += 1
        if not e <= TOL:
            viols.append(cm.viol("stress tensor is not symmetric (%.3e)" % e, "stress_symmetric", e, TOL))
    F = cm.call(ST.evaluate_ehrenfest_force, cm.rep(dm, rkind), cm.build(shells), cm.rep(pts, rkind), alpha=a, beta=b, **kw)
    cm.compare(F, fref, TOL, "evaluate_ehrenfest_force" + tag + " vs -div(stress)", "force", viols, errs, scale=fsc + 1e-280, alpha=a, beta=b)
    evals += 1
    H = cm.call(ST.evaluate_ehrenfest_hessian, cm.rep(dm, rkind), cm.build(shells), cm.rep(pts, rkind), alpha=a, beta=b, **kw)
    cm.compare(H, href, TOL, "evaluate_ehrenfest_hessian" + tag + " vs Jacobian of the force", "hessian", viols, errs, scale=hsc + 1e-280, alpha=a, beta=b)
    evals += 1
    Hs = cm.call(ST.evaluate_ehrenfest_hessian, cm.rep(dm, rkind), cm.build(shells), cm.rep(pts, rkind), alpha=a, beta=b, symmetric=True, **kw)
    hs_sc = 0.5 * (hsc + np.swapaxes(hsc, 1, 2))
    cm.compare(Hs, 0.5 * (href + np.swapaxes(href, 1, 2)), TOL, "evaluate_ehrenfest_hessian(symmetric=True)" + tag, "hessian_sym", viols, errs, scale=hs_sc + 1e-280)
    evals += 1
    if isinstance(H, np.ndarray) and isinstance(Hs, np.ndarray) and H.shape == Hs.shape == (N, 3, 3):
        e = cm.maxerr(Hs, 0.5 * (H + np.swapaxes(H, 1, 2)), hs_sc + 1e-280)[0]
        errs["hessian_sym_vs_observed"] = e
        evals += 1
        if not e <= TOL:
            viols.append(cm.viol("symmetric=True differs from the average of the observed Hessian and its transpose (%.3e)" % e, "hessian_sym_vs_observed", e, TOL))
    nontrivial = "dm:zero" not in case["classes"] and any(s["l"] >= 1 for s in shells)
    return {"evals": evals, "nontrivial": bool(nontrivial), "classes": case.get("classes", []), "errs": errs, "violations": viols}


def summarize(cases, results, counts, lists, tier):
    return {"bound": "1e-9 * conditioning scale", "special_alpha_beta_pairs": [list(x) for x in AB]}
