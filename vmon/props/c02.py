"""C02 kinetic-energy integrals exact (1e-8 of sqrt(T_aa T_bb))."""
import itertools

import numpy as np

from vmon.gen import bases
from vmon.props import common as cm
from vmon.ref import gto

ID = "C02"
OWNS = ("C02",)
TOL = 1e-8
RULE = (
    "bases of 1-4 shells whose first two shells enumerate every ordered (l_a,l_b) in 0..5 x 0..5 (the derivative "
    "recursion pads only the left index, so both orders are different paths); 1-4 primitives, 1-3 segments, "
    "exponents log-uniform in [0.02, cap(l)] with edge classes, geometry classes, cartesian/spherical per shell; "
    "kinetic_energy_integral compared with the reference -1/2 sum_axis <a|d2/dx2|b> from explicit polynomial "
    "differentiation in longdouble; bound 1e-8*sqrt(T_aa T_bb) with reference diagonals. non-trivial = some "
    "off-diagonal shell block has an element above 1e-6 of that scale (single shell: l>0 or M>1)."
)
FLOOR = {"quick": 30, "thorough": 1000}
DECIDING = ["eval:kinetic_energy_integral", "kernel:KineticEnergyIntegral"]
REQUIRED_LINES = [
    ("gbasis/integrals/kinetic_energy.py", "return KineticEnergyIntegral(basis).construct_array_mix(coord_type)"),
    ("gbasis/integrals/_diff_operator_int.py", "angmom_a_max + order_diff_max"),
]
ASSUMPTIONS = ["reference model vmon/ref/gto.py after self-test (HORTON kinetic array reproduced to 2e-13)"]


def gen_cases(tier, seed):
    reps = 5 if tier == "quick" else 360
    cases = []
    for rep in range(reps):
        for (la, lb) in itertools.product(range(6), repeat=2):
            rng = bases.rng_for("C02", seed, tier, rep, la, lb)
            nsh = int(rng.choice([2, 2, 3, 4])) if rep else 2
            if rep % 4 == 3 and la == lb:
                nsh = 1
            ls = [la, lb][:nsh] + [int(rng.integers(0, 4)) for _ in range(max(0, nsh - 2))]
            sym = bool(nsh >= 3 and lb <= 2 and rng.random() < 0.5)  # equivalent atoms around a centre (XH2, XH3)
            if sym:
                ls = [la, lb] + [lb] * (nsh - 2)
            shells, classes = bases.rand_basis(rng, ls, scale=1.2, symmetric=True if sym else None)
            if rep % 2 == 1 and nsh == 2:
                shells, classes = bases.window_pair(rng, la, lb)
            cases.append({"shells": shells, "classes": classes + ["l:%d,%d" % (la, lb), "nsh:%d" % nsh],
                          "cost": sum((2 + a) * (2 + b) * len(x["e"]) * len(y["e"]) for x, a in zip(shells, ls) for y, b in zip(shells, ls))})
    # displaced copies: nearly coincident centres, also far from the origin
    for k, (la, lb) in enumerate(itertools.product(range(4), repeat=2)):
        for rep in range(2 if tier == "quick" else 8):
            rng = bases.rng_for("C02", seed, tier, "displaced", la, lb, rep)
            shells, classes = bases.displaced_pair(rng, la, lb)
            cases.append({"shells": shells, "classes": classes + ["l:%d,%d" % (la, lb), "nsh:2"], "cost": 30})
    # screening-window sweep: high-l pairs at separations where exp(-mu R^2) runs through 1e-9 .. 1e-17
    for (la, lb) in itertools.product((4, 5) if tier == "quick" else (3, 4, 5), repeat=2):
        for t in range(20, 40, 2):
            rng = bases.rng_for("C02", seed, tier, "window", la, lb, t)
            shells, classes = bases.window_pair(rng, la, lb, tmin=t, tmax=t + 2)
            cases.append({"shells": shells, "classes": classes + ["l:%d,%d" % (la, lb), "nsh:2", "window-sweep"], "cost": 40})
    # tight functions far from the origin
    for k in range(6 if tier == "quick" else 48):
        rng = bases.rng_for("C02", seed, tier, "tight-far", k)
        la, lb = int(rng.integers(0, 4)), int(rng.integers(0, 4))
        shells, classes = bases.tight_far_pair(rng, la, lb)
        cases.append({"shells": shells, "classes": classes + ["l:%d,%d" % (la, lb), "nsh:2"], "cost": 30})
    # the largest bases the quantifier admits: four shells of high angular momentum with three segments each (150-250 functions)
    for k in range(1 if tier == "quick" else 6):
        rng = bases.rng_for("C02", seed, tier, "large", k)
        ls = [[5, 4, 5, 4], [4, 5, 3, 5], [5, 5, 4, 3]][k % 3]
        shells, classes = bases.rand_basis(rng, ls, Kmax=2, Mmax=3, scale=1.0, distinct_M=False, symmetric=False)
        for s_ in shells:
            while len(s_["k"][0]) < 3:
                s_["k"] = [row + [float(rng.normal()) + 0.3] for row in s_["k"]]
        cases.append({"shells": shells, "classes": classes + ["l:%d,%d" % (ls[0], ls[1]), "nsh:4", "large-basis:%d" % sum(bases.nfunc(s_) for s_ in shells)], "cost": 5000})
    # tight shells about one width apart
    for k in range(8 if tier == "quick" else 64):
        rng = bases.rng_for("C02", seed, tier, "tight-near", k)
        la, lb = int(rng.integers(0, 3)), int(rng.integers(0, 3))
        shells, classes = bases.tight_near_pair(rng, la, lb)
        cases.append({"shells": shells, "classes": classes + ["l:%d,%d" % (la, lb), "nsh:2"], "cost": 30})
    cases += bases.dup_variants("C02", seed, tier, cases, 9)  # one shell listed twice as the same object
    cases += bases.argrep_variants("C02", seed, tier, cases, 7, ok=lambda c: "shells" in c and c.get("kind") in (None, "whole", "kernel", "perm", "real"))  # constructor arguments in other in-memory representations
    return cases


def run_case(case):
    from gbasis.integrals.kinetic_energy import kinetic_energy_integral

    shells = case["shells"]
    viols, errs = [], {}
    rs = cm.rshells(shells)
    ref = gto.kinetic(rs)
    offs = gto.offsets(rs)
    dg = np.abs(np.diag(ref))
    scale = np.sqrt(np.outer(dg, dg))
    T = cm.call(kinetic_energy_integral, cm.build(shells))
    cm.compare(T, ref, TOL, "kinetic_energy_integral", "kinetic", viols, errs, scale=scale, ls=cm.ls_of(shells))
    n = len(shells)
    if n == 1:
        nontrivial = shells[0]["l"] > 0 or len(shells[0]["k"][0]) > 1
    else:
        rel = np.abs(ref) / scale
        m = max(float(rel[offs[i]:offs[i + 1], offs[j]:offs[j + 1]].max()) for i in range(n) for j in range(i + 1, n))
        nontrivial = m > 1e-6
    return {"evals": 1, "nontrivial": bool(nontrivial), "classes": case.get("classes", []), "errs": errs, "violations": viols}


def summarize(cases, results, counts, lists, tier):
    pairs = {x for c in cases for x in c.get("classes", []) if x.startswith("l:")}
    return {"enumerated": {"ordered (l_a,l_b) pairs 0..5": "%d of 36" % len(pairs)}, "bound": "1e-8 * sqrt(T_aa T_bb)"}
