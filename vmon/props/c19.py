"""C19 purity: arguments, shells and global FP state never change; results depend only on the arguments.

Shape: history + executable model.  The model of a pure library: outcome = f(arguments); arguments and
numpy's error state unchanged whether the call returns or raises.
"""
import copy
import os
import tempfile

import numpy as np

from vmon.gen import bases
from vmon.monitors import install as mi
from vmon.props import common as cm

ID = "C19"
OWNS = ("C19",)
HANDLES_FIRINGS = True
RULE = (
    "random histories of 5-30 operations drawn from ~45 operation kinds (every public integral, evaluation, density, "
    "stress-tensor and import function, valid and deliberately invalid: wrong shapes, asymmetric gamma, negative "
    "threshold, bad notation, unknown back-end, order 3 with 'direct', coord_types of wrong length, indefinite gamma "
    "with tiny threshold, zero-charge nucleus on a grid point, unknown element, missing file) on a small pool of SHARED "
    "objects (basis tuple, arrays, lists, basis dictionary, files), interleaved with parameter updates (coeffs / exps / "
    "coord assignment or in-place edit followed by assign_norm_cont(), and rejected updates with arrays of the wrong length), under default / all-raise / all-ignore / errcall FP settings. "
    "Monitors per operation: argument-digest sentinel on return and on raise (M-pure), numpy geterr()/geterrcall() "
    "sentinel (M-fp), result-aliasing and kernel-freshness sentinels; determinism: pass 2 re-evaluates every operation in "
    "shuffled order on a deep copy of the pool state it saw and must reproduce outcome type and value (1e-13 relative), "
    "repeated (operation, argument-digest) keys within the history must agree; pass 3 replays the history with every "
    "ndarray write-protected (M-ro); each shell's own overlap diagonal is 1 within 1e-8 as constructed and after each "
    "update+renormalisation, and the updated basis must give the same arrays as a basis constructed from scratch with the "
    "same parameters (no stale derived state). non-trivial history: >= 5 operations, >= 1 raising, >= 1 repeated key."
)
FLOOR = {"quick": 25, "thorough": 100}
DECIDING = ["M-pure", "M-fp", "M-pure-raise", "M-fresh", "M-alias"]
ASSUMPTIONS = ["bitwise digests (sha1 of array bytes, structure of lists/tuples/dicts, shell attributes) identify argument state",
               "single BLAS thread so that repeated evaluations are reproducible to 1e-13 relative"]

VALID_OPS = [
    "overlap", "overlap_screen", "overlap_T", "overlap_asym", "kinetic", "nuclear", "point_charge", "moment", "momentum", "angmom",
    "eri", "eri_chem", "eval", "eval_T", "deriv", "deriv_direct", "density", "deriv_density", "gradient", "laplacian", "hessian",
    "posdef_ked", "general_ked", "esp", "stress", "force", "ehess", "make_contractions", "make_contractions_str", "make_contractions_tuple",
    "parse_nwchem", "parse_gbs", "gen_transform", "rdm", "overlap_dup", "eri_dup", "eval_dup", "kinetic_dup", "momentum_dup", "moment_dup", "point_charge_dup", "density_dup",
]
INVALID_OPS = [
    "bad_points_shape", "bad_dm_asym", "bad_esp_threshold", "bad_notation", "bad_backend", "bad_direct_order3", "bad_ct_len",
    "bad_density_threshold", "bad_zero_charge_on_point", "bad_orders_negative", "bad_transform_shape", "bad_atom", "bad_atom_case", "bad_file",
    "bad_moment_orders", "bad_sph_labels",
]
UPDATE_OPS = ["upd_coeffs", "upd_exps", "upd_coord", "upd_exps_inplace", "upd_coeffs_inplace", "upd_coord_inplace", "upd_bad_coeffs", "upd_bad_exps", "upd_scramble_returned", "upd_zero_coeffs"]


def gen_cases(tier, seed):
    n = 64 if tier == "quick" else 800
    cases = []
    for i in range(n):
        rng = bases.rng_for("C19", seed, tier, i)
        nsh = int(rng.integers(2, 4))
        ls = [int(x) for x in rng.integers(0, 3, size=nsh)]
        shells, classes = bases.rand_basis(rng, ls, scale=1.0, emax_fn=lambda l: 50.0, Kmax=3, Mmax=2)
        if i % 3 == 2:
            # the shells of the shared basis are built on Fortran-ordered / strided / transposed-view coefficient arrays etc.
            shells, classes = bases.add_argrep(bases.rng_for("C19", seed, tier, "argrep", i), shells, classes)
            for s_ in shells:
                s_.pop("ic", None)
                if (s_.get("rep") or {}).get("c") == "int":
                    s_["rep"].pop("c")
        nops = int(rng.integers(5, 31))
        ops = []
        for k in range(nops):
            r = rng.random()
            if r < 0.62:
                name = VALID_OPS[int(rng.integers(len(VALID_OPS)))]
            elif r < 0.85:
                name = INVALID_OPS[int(rng.integers(len(INVALID_OPS)))]
            elif r < 0.93 and ops:
                name = ops[int(rng.integers(len(ops)))]["op"]  # deliberate repeat
            else:
                name = UPDATE_OPS[int(rng.integers(len(UPDATE_OPS)))]
            ops.append({"op": name, "r": [float(x) for x in rng.random(4)], "shell": int(rng.integers(nsh))})
        # make sure the history has a raising op and a repeated key
        ops.insert(int(rng.integers(len(ops) + 1)), {"op": INVALID_OPS[i % len(INVALID_OPS)], "r": [0.1, 0.2, 0.3, 0.4], "shell": 0})
        cand = [k for k, x in enumerate(ops) if not x["op"].startswith("upd_")]
        k = cand[int(rng.integers(len(cand)))]
        ops.insert(k + 1, dict(ops[k]))  # adjacent repeat: same pool state, same key
        fp = ["default", "raise", "ignore", "call", "default"][i % 5]
        cases.append({"kind": "history", "shells": shells, "ops": ops[:34], "fp": fp, "pool_seed": [seed, i], "pool_rep": bool(i % 3 == 1), "pool_mc": bool(i % 4 == 2),
                      "classes": classes + ["fp:" + fp, "nops:%d" % len(ops[:34])] + (["pool:array-representations"] if i % 3 == 1 else []) + (["pool:basis-from-make_contractions"] if i % 4 == 2 else []), "cost": len(ops) * (1 + sum(ls)) ** 2})
    if tier == "thorough":
        # the repository's own, unedited test-suite as a workload with the sentinels on (pytest plugin vmon.pytest_plugin)
        cases.append({"kind": "testsuite", "classes": ["repo-testsuite-under-monitors"], "cost": 1e9})
    return cases


def run_testsuite(case):
    import glob
    import json
    import subprocess
    import sys

    from vmon import env

    out = os.path.join(env.WORK, "plugin-%d" % os.getpid())
    for f in glob.glob(out + ".*.json"):
        os.remove(f)
    cmd = [sys.executable, "-m", "pytest", "-q", "-p", "no:cacheprovider", "-p", "vmon.pytest_plugin", "-n", "4", "tests"]
    p = subprocess.run(cmd, cwd=env.REPO, capture_output=True, text=True, timeout=3 * 3600,
                       env={**os.environ, "PYTHONPATH": env.VERIF + os.pathsep + env.REPO, "VMON_PLUGIN_OUT": out, "VERIF_REPO": env.REPO})
    last = (p.stdout.strip().splitlines() or ["?"])[-1]
    viols, ntests, evals = [], 0, 0
    counts = {}
    for f in glob.glob(out + ".*.json"):
        with open(f) as fh:
            d = json.load(fh)
        os.remove(f)
        ntests += d["tests"]
        for k, v in d.get("counts", {}).items():
            counts[k] = counts.get(k, 0) + v
        for x in d["firings"]:
            if x["owner"] == "C19":
                viols.append(cm.viol("[repository test %s] %s fired in %s: %s" % (x["test"], x["monitor"], x["function"], x["detail"]), x["monitor"],
                                     function=x["function"], detail=x["detail"][:200], test=x["test"]))
    evals = int(sum(v for k, v in counts.items() if k in ("M-pure", "M-fp", "M-alias", "M-fresh", "M-pure-raise")))
    res = {"evals": evals, "nontrivial": ntests > 100, "classes": case["classes"], "errs": {"repo_tests_run": float(ntests)}, "violations": viols[:20],
           "testsuite": {"summary": last, "tests": ntests, "monitor_counts": {k: v for k, v in counts.items() if k.startswith("M-")}}}
    if ntests == 0:
        res["harness_error"] = "the repository test-suite did not run under the plugin: %s" % (p.stdout[-500:] + p.stderr[-500:])
    return res


class Mole:
    def __init__(self, atom, basis, cart):
        self._atom, self._basis, self.cart = atom, basis, cart


def make_pool(case, files):
    rng = bases.rng_for("C19pool", *case["pool_seed"])
    shells = case["shells"]
    if case.get("pool_mc"):
        # the shared basis comes from make_contractions for a molecule that repeats an element (H He H): the shells of the
        # two H atoms are built from the same dictionary entry, which is where sibling shells could come to share state
        from gbasis.parsers import make_contractions

        sh_h, sh_he = shells[:1], shells[1:]
        c_h1, c_he = np.array(sh_h[0]["c"], dtype=float), np.array(sh_he[0]["c"], dtype=float)
        c_h2 = c_h1 + np.array([1.1, 0.3, -0.7])
        bd = {"H": [(int(s["l"]), np.array(s["e"], dtype=float), np.array(s["k"], dtype=float)) for s in sh_h],
              "He": [(int(s["l"]), np.array(s["e"], dtype=float), np.array(s["k"], dtype=float)) for s in sh_he]}
        shells = [dict(s, c=[float(v) for v in c_h1]) for s in sh_h] + [dict(s, c=[float(v) for v in c_he]) for s in sh_he] + [dict(s, c=[float(v) for v in c_h2]) for s in sh_h]
        basis = tuple(make_contractions(bd, ["H", "He", "H"], np.array([c_h1, c_he, c_h2]), coord_types=[bases.TYPES[s["t"]] for s in shells]))
    else:
        basis = tuple(cm.build(shells))
    n = sum(bases.nfunc(s) for s in shells)
    a = rng.normal(size=(n, n))
    P = {
        "basis": basis,
        "basis2": list(cm.build(shells[:1])),
        "pts": rng.normal(size=(4, 3)),
        "chg": np.array([1.0, -2.0, 0.5, 3.0]),
        "nuc": np.array([s["c"] for s in shells], dtype=float),
        "Z": np.arange(1.0, len(shells) + 1.0),
        "dm": a @ a.T,
        "dm_indef": a + a.T,
        "dm_asym": a,
        "T": rng.normal(size=(max(1, n - 1), n)),
        "T_bad": rng.normal(size=(n, n + 1)),
        "dmT": None,
        "ct": ["cartesian", "p"] * 8,
        "atoms": ["H", "He", "H"],
        "atoms_case": ["H", "HE", "h"],  # labels the dictionary does not hold (whatever the call does, the list stays as it is)
        "coords": rng.normal(size=(3, 3)),
        "bd": {"H": [(0, np.array([1.3, 0.4]), np.array([[0.5], [0.7]])), (1, np.array([0.9]), np.array([[1.0]]))],
               "He": [(0, np.array([2.0, 0.5]), np.array([[0.3, 1.0], [0.8, -0.2]]))]},
        "orders": np.array([1, 0, 2]),
        "orders3": np.array([3, 0, 0]),
        "morders": np.array([[0, 0, 0], [1, 0, 2], [2, 1, 0]]),
        "origin": np.array([0.3, -0.2, 0.9]),
        "files": dict(files),
    }
    b = rng.normal(size=(n - 1 if n > 1 else 1,) * 2)
    P["dmT"] = b @ b.T
    P["ct"] = P["ct"][:5]  # 3 atoms: H(2) + He(1) + H(2) = 5 shells
    if case.get("pool_rep"):
        # the shared arrays in other legitimate in-memory representations (Fortran order, strided view, negative strides):
        # a routine that works in place on "its own copy" (asarray / overwrite_a / out=) only owns a copy for some of them
        for name in ("pts", "chg", "nuc", "Z", "dm", "dm_indef", "dmT", "T", "coords", "origin"):
            P[name] = cm.rep(P[name], str(rng.choice(["f", "strided", "neg", "f"] if P[name].ndim == 2 else ["strided", "neg", "c"])))
    return P


def op_call(name, P, o):
    """Return a thunk performing operation ``name`` on the shared pool ``P``."""
    from gbasis.evals import density as D
    from gbasis.evals import stress_tensor as ST
    from gbasis.evals.electrostatic_potential import electrostatic_potential
    from gbasis.evals.eval import evaluate_basis
    from gbasis.evals.eval_deriv import evaluate_deriv_basis
    from gbasis.integrals.angular_momentum import angular_momentum_integral
    from gbasis.integrals.electron_repulsion import electron_repulsion_integral
    from gbasis.integrals.kinetic_energy import kinetic_energy_integral
    from gbasis.integrals.moment import moment_integral
    from gbasis.integrals.momentum import momentum_integral
    from gbasis.integrals.nuclear_electron_attraction import nuclear_electron_attraction_integral
    from gbasis.integrals.overlap import overlap_integral
    from gbasis.integrals.overlap_asymm import overlap_integral_asymmetric
    from gbasis.integrals.point_charge import point_charge_integral
    from gbasis.parsers import make_contractions, parse_gbs, parse_nwchem
    from gbasis.spherical import generate_transformation

    b = P["basis"]
    r = o["r"]
    alpha = [1, 0, 0.5, r[1]][int(r[0] * 4)]
    T = {
        "overlap": lambda: overlap_integral(b),
        "overlap_screen": lambda: overlap_integral(b, tol_screen=[0.5, 1e-1, 1e-3][int(r[0] * 3)]),
        "overlap_T": lambda: overlap_integral(b, transform=P["T"]),
        "overlap_asym": lambda: overlap_integral_asymmetric(b, P["basis2"]),
        # the same shell OBJECT listed twice (and a third time through another reference): values must be those of a
        # basis of distinct, equal-valued shells
        "overlap_dup": lambda: _dup_check(overlap_integral, _dups(b, r, 3)),
        "eri_dup": lambda: _dup_check(lambda x: electron_repulsion_integral(list(x), notation="chemist"), _dups(b, r, 2)),
        "eval_dup": lambda: _dup_check(lambda x: evaluate_deriv_basis(x, P["pts"], P["orders"]), _dups(b, r, 3)),
        "kinetic_dup": lambda: _dup_check(kinetic_energy_integral, _dups(b, r, 3)),
        "momentum_dup": lambda: _dup_check(momentum_integral, _dups(b, r, 3)),
        "moment_dup": lambda: _dup_check(lambda x: moment_integral(x, P["origin"], P["morders"]), _dups(b, r, 3)),
        "point_charge_dup": lambda: _dup_check(lambda x: point_charge_integral(x, P["pts"], P["chg"]), _dups(b, r, 3)),
        "density_dup": lambda: _dup_check(lambda x: D.evaluate_density(_dm_for(x, r), x, P["pts"]), _dups(b, r, 3)),
        "kinetic": lambda: kinetic_energy_integral(b),
        "nuclear": lambda: nuclear_electron_attraction_integral(b, P["nuc"], P["Z"]),
        "point_charge": lambda: point_charge_integral(b, P["pts"], P["chg"]),
        "moment": lambda: moment_integral(b, P["origin"], P["morders"]),
        "momentum": lambda: momentum_integral(b),
        "angmom": lambda: angular_momentum_integral(b, transform=P["T"] if r[0] < 0.3 else None),
        "eri": lambda: electron_repulsion_integral(list(b)[:2]),
        "eri_chem": lambda: electron_repulsion_integral(list(b)[:2], notation="chemist"),
        "eval": lambda: evaluate_basis(b, P["pts"]),
        "eval_T": lambda: evaluate_basis(b, P["pts"], transform=P["T"]),
        "deriv": lambda: evaluate_deriv_basis(b, P["pts"], P["orders"]),
        "deriv_direct": lambda: evaluate_deriv_basis(b, P["pts"], P["orders"], deriv_type="direct"),
        "density": lambda: D.evaluate_density(P["dm"], b, P["pts"]),
        "deriv_density": lambda: D.evaluate_deriv_density(P["orders"], P["dm_indef"], b, P["pts"]),
        "gradient": lambda: D.evaluate_density_gradient(P["dm"], b, P["pts"], deriv_type="direct" if r[0] < 0.5 else "general"),
        "laplacian": lambda: D.evaluate_density_laplacian(P["dm_indef"], b, P["pts"]),
        "hessian": lambda: D.evaluate_density_hessian(P["dm"], b, P["pts"]),
        "posdef_ked": lambda: D.evaluate_posdef_kinetic_energy_density(P["dm"], b, P["pts"]),
        "general_ked": lambda: D.evaluate_general_kinetic_energy_density(P["dm"], b, P["pts"], alpha),
        "rdm": lambda: D.evaluate_deriv_reduced_density_matrix(P["orders"], np.array([0, 1, 0]), P["dmT"], b, P["pts"], transform=P["T"]),
        "esp": lambda: electrostatic_potential(b, P["dm"], P["pts"], P["nuc"], P["Z"], threshold_dist=float(r[2])),
        "stress": lambda: ST.evaluate_stress_tensor(P["dm"], b, P["pts"], alpha=alpha, beta=int(r[3] * 2)),
        "force": lambda: ST.evaluate_ehrenfest_force(P["dm_indef"], b, P["pts"], alpha=alpha, beta=int(r[3] * 2)),
        "ehess": lambda: ST.evaluate_ehrenfest_hessian(P["dm"], b, P["pts"][:2], alpha=alpha, beta=int(r[3] * 2), symmetric=r[2] < 0.5),
        "make_contractions": lambda: make_contractions(P["bd"], P["atoms"], P["coords"], P["ct"]),
        "make_contractions_str": lambda: make_contractions(P["bd"], tuple(P["atoms"]), P["coords"], "spherical"),
        "make_contractions_tuple": lambda: make_contractions(P["bd"], P["atoms"], P["coords"], tuple(P["ct"])),
        "parse_nwchem": lambda: parse_nwchem(P["files"]["nwchem"]),
        "parse_gbs": lambda: parse_gbs(P["files"]["gbs"]),
        "gen_transform": lambda: generate_transformation(2, b[0].__class__(2, np.zeros(3), np.ones(1), np.ones(1), "p").angmom_components_cart, ("s2", "-s1", "c0", "c1", "c2"), "left"),
        # ---- deliberately invalid
        "bad_points_shape": lambda: evaluate_basis(b, P["pts"][:, :2]),
        "bad_dm_asym": lambda: D.evaluate_density(P["dm_asym"], b, P["pts"]),
        "bad_esp_threshold": lambda: electrostatic_potential(b, P["dm"], P["pts"], P["nuc"], P["Z"], threshold_dist=-1.0),
        "bad_notation": lambda: electron_repulsion_integral(list(b)[:1], notation="mulliken"),
        "bad_backend": lambda: evaluate_deriv_basis(b, P["pts"], P["orders"], deriv_type="fast"),
        "bad_direct_order3": lambda: evaluate_deriv_basis(b, P["pts"], P["orders3"], deriv_type="direct"),
        "bad_ct_len": lambda: make_contractions(P["bd"], P["atoms"], P["coords"], P["ct"][:2]),
        "bad_density_threshold": lambda: D.evaluate_density(P["dm_indef"], b, P["pts"], threshold=1e-300),
        "bad_zero_charge_on_point": lambda: electrostatic_potential(b, P["dm"], P["nuc"][:1], P["nuc"][:1], np.zeros(1)),
        "bad_orders_negative": lambda: evaluate_deriv_basis(b, P["pts"], np.array([0, -1, 0])),
        "bad_transform_shape": lambda: kinetic_energy_integral(b, transform=P["T_bad"]),
        "bad_atom": lambda: make_contractions(P["bd"], ["H", "Xx"], P["coords"][:2], "cartesian"),
        "bad_atom_case": lambda: make_contractions(P["bd"], P["atoms_case"], P["coords"], "cartesian"),
        "bad_file": lambda: parse_nwchem(P["files"]["nwchem"] + ".missing"),
        "bad_moment_orders": lambda: moment_integral(b, P["origin"], np.array([[0, -1, 0]])),
        "bad_sph_labels": lambda: generate_transformation(1, np.array([[1, 0, 0], [0, 1, 0], [0, 0, 1]]), ("c1", "c1", "c0"), "left"),
    }
    return T[name]


class DupMismatch(Exception):
    pass


def _dups(b, r, n):
    """a basis that lists the same shell OBJECT more than once: as found in the pool (possibly mixed coordinate types) or
    rebuilt with one common coordinate type so that the all-spherical / all-Cartesian assembly paths are taken too"""
    from gbasis.contractions import GeneralizedContractionShell as _G

    mode = ("asis", "spherical", "cartesian")[int(r[3] * 3) % 3]
    x, y = b[0], b[-1]
    if mode != "asis":
        with np.errstate(under="ignore"):
            x, y = (_G(int(v.angmom), np.array(v.coord), np.array(v.coeffs), np.array(v.exps), mode) for v in (x, y))
    pat = [(x, x), (x, y, x), (y, x, x), (x, x, y)][int(r[2] * 4) % 4 if n == 3 else 0]
    return tuple(pat)


def _dm_for(x, r):
    n = sum(s_.num_sph * s_.num_seg_cont if s_.coord_type == "spherical" else s_.num_cart * s_.num_seg_cont for s_ in x)
    g = np.random.default_rng(int(r[1] * 1e6))
    a = g.normal(size=(n, 2))
    return a @ a.T


def _dup_check(fn, dup):
    """fn on a basis that lists the same shell object more than once must equal fn on distinct equal-valued shells"""
    from gbasis.contractions import GeneralizedContractionShell as _G

    with np.errstate(under="ignore"):
        fresh = [_G(int(x.angmom), np.array(x.coord), np.array(x.coeffs), np.array(x.exps), x.coord_type) for x in dup]
    a = fn(dup)
    b_ = fn(fresh)
    ok, why = same_value(a, b_)
    if not ok:
        raise DupMismatch("a basis listing the same shell object twice gives another result than distinct equal shells: " + why)
    return a


def apply_update(name, P, o, frozen=False):
    s = P["basis"][o["shell"] % len(P["basis"])]
    r = o["r"]
    if name in ("upd_bad_coeffs", "upd_bad_exps"):
        # a rejected parameter update must leave the shell exactly as it was ("whether it returns or raises")
        before = mi.digest(vars(s))
        try:
            if name == "upd_bad_coeffs":
                s.coeffs = np.ones(len(s.exps) + 1)
            else:
                s.exps = np.ones(len(s.exps) + 2)
            raised = False
        except Exception:  # noqa: BLE001
            raised = True
        return ("rejected" if raised else "accepted"), before == mi.digest(vars(s)), s
    if name.endswith("_inplace"):
        was = [a.flags.writeable for a in (s.exps, s.coeffs, s.coord)]
        for a in (s.exps, s.coeffs, s.coord):
            a.flags.writeable = True
        if name == "upd_exps_inplace":
            s.exps[:] = s.exps * 10.0 ** (2.6 * r[0] - 1.3)
        elif name == "upd_coeffs_inplace":
            s.coeffs[:] = s.coeffs * (0.5 + r[0]) + 0.1 * r[1]
        else:
            s.coord[:] = s.coord + np.array(r[:3]) - 0.5
        with np.errstate(under="ignore"):  # the harness' own renormalisation call must not trip the history's FP setting
            # shells made by make_contractions for two atoms of one element hold the SAME exponent / coefficient arrays (the
            # ones of the basis dictionary): an in-place edit changes the parameters of all of them, so the caller
            # renormalises all of them (the property promises normalisation only after it has been recomputed)
            for t_ in P["basis"]:
                if t_ is s or np.shares_memory(t_.exps, s.exps) or np.shares_memory(t_.coeffs, s.coeffs):
                    t_.assign_norm_cont()
        if frozen:
            mi.freeze(s)
        return s
    if name == "upd_coeffs":
        s.coeffs = np.array(s.coeffs) * (0.5 + r[0]) + 0.1 * r[1]
    elif name == "upd_exps":
        s.exps = np.array(s.exps) * 10.0 ** (2.6 * r[0] - 1.3)
    else:
        s.coord = np.array(s.coord) + np.array(r[:3]) - 0.5
    with np.errstate(under="ignore"):
        s.assign_norm_cont()
    if frozen:
        mi.freeze(s)
    return s


def outcome_of(thunk):
    try:
        return ("ok", thunk())
    except Exception as exc:  # noqa: BLE001
        return ("exc", type(exc).__name__, str(exc)[:160])


def same_outcome(a, b):
    if a[0] != b[0]:
        return False, "outcome kind %s vs %s" % (a[:2] if a[0] == "exc" else "returned", b[:2] if b[0] == "exc" else "returned")
    if a[0] == "exc":
        return (a[1] == b[1]), "exception type %s vs %s" % (a[1], b[1])
    return same_value(a[1], b[1])


def same_value(x, y):
    if isinstance(x, np.ndarray) and isinstance(y, np.ndarray):
        if x.shape != y.shape or x.dtype != y.dtype:
            return False, "shape/dtype %s %s vs %s %s" % (x.shape, x.dtype, y.shape, y.dtype)
        if x.dtype == object:
            return True, ""
        fin = np.isfinite(x)
        if not np.array_equal(fin, np.isfinite(y)) or not np.array_equal(x[~fin], y[~fin], equal_nan=True):
            return False, "non-finite pattern differs"
        sc = float(np.abs(x[fin]).max()) if fin.any() else 0.0
        d = float(np.abs(x[fin] - y[fin]).max()) if fin.any() else 0.0
        return d <= 1e-13 * sc + 1e-300, "values differ by %.3e (scale %.3e)" % (d, sc)
    if isinstance(x, (tuple, list)) and isinstance(y, (tuple, list)):
        if len(x) != len(y):
            return False, "length %d vs %d" % (len(x), len(y))
        for a, b in zip(x, y):
            ok, why = same_value(a, b)
            if not ok:
                return ok, why
        return True, ""
    if isinstance(x, dict) and isinstance(y, dict):
        if list(x.keys()) != list(y.keys()):
            return False, "dict keys differ"
        for k in x:
            ok, why = same_value(x[k], y[k])
            if not ok:
                return ok, why
        return True, ""
    if hasattr(x, "__dict__") and hasattr(y, "__dict__"):
        return (mi.digest(vars(x)) == mi.digest(vars(y))), "shell attributes differ"
    return (x == y), "%r vs %r" % (x, y)


FP = {"default": None, "raise": dict(all="raise"), "ignore": dict(all="ignore"), "call": dict(divide="call", invalid="call")}


def _errcall(kind, flag):
    mi.STATE.count("fp-event:" + str(kind))


def run_history(case, pool, mode, viols, pass_name):
    """mode: 'record' (in order), returns list of (op, key, outcome, pre-pool copy)."""
    from gbasis.integrals.overlap import overlap_integral

    rec = []
    evals = 0
    seen = {}
    frozen = mode == "frozen"
    if frozen:
        mi.freeze(pool)
    for k, o in enumerate(case["ops"]):
        name = o["op"]
        if name == "upd_scramble_returned":
            # arrays handed OUT by the library belong to the caller: overwriting them must not change later results
            from gbasis.evals.eval import evaluate_basis as _eb
            from gbasis.integrals.kinetic_energy import kinetic_energy_integral as _kin2
            from gbasis.spherical import generate_transformation as _gt

            from gbasis.integrals.moment import moment_integral as _mom
            from gbasis.integrals.nuclear_electron_attraction import nuclear_electron_attraction_integral as _nuc
            from gbasis.integrals.point_charge import point_charge_integral as _pc2
            from gbasis.parsers import parse_gbs as _pg, parse_nwchem as _pn

            def more_():
                b_ = list(pool["basis"])
                return [cm.call(_pc2, b_, np.array(pool["pts"]), np.array(pool["chg"])), cm.call(_nuc, b_, np.array(pool["nuc"]), np.array(pool["Z"])),
                        cm.call(_mom, b_, np.array(pool["origin"]), np.array(pool["morders"])), cm.call(_pn, pool["files"]["nwchem"]), cm.call(_pg, pool["files"]["gbs"])]

            def probes():
                b_ = list(pool["basis"])
                out_ = [cm.call(overlap_integral, b_), cm.call(_kin2, b_), cm.call(_eb, b_, np.array(pool["pts"])),
                        cm.call(overlap_integral, b_, tol_screen=0.5), cm.call(overlap_integral, b_, tol_screen=1e-1), cm.call(overlap_integral, b_, tol_screen=1e-6)]
                for x_ in more_():
                    out_.append(x_ if isinstance(x_, (np.ndarray, cm.Raised)) else np.concatenate([np.ravel(a_) for a_ in mi.arrays_of(x_)] or [np.zeros(0)]))
                for sh_ in b_:
                    out_.append(np.array(sh_.angmom_components_cart))
                    out_.append(cm.call(lambda x_: np.array(x_.norm_prim_cart), sh_))
                    out_.append(cm.call(_gt, int(sh_.angmom), np.array(sh_.angmom_components_cart), tuple(sh_.angmom_components_sph), "left"))
                return out_

            before = probes()
            rs_ = bases.rng_for("C19scramble", k, *o["r"])
            h0_ = cm.call(overlap_integral, list(pool["basis"]))
            handed = [h0_] if isinstance(h0_, np.ndarray) else []
            from gbasis.integrals.overlap import Overlap as _Ov

            bl_ = list(pool["basis"])
            for ia_ in range(len(bl_)):
                for ib_ in range(len(bl_)):
                    for tol_ in (None, 0.5, 1e-1, 1e-6):  # blocks handed out by the public kernel, screened or not
                        blk_ = cm.call(_Ov.construct_array_contraction, bl_[ia_], bl_[ib_], tol_screen=tol_)
                        if isinstance(blk_, np.ndarray):
                            handed.append(blk_)
            for x_ in more_():  # integral arrays and parsed basis-set data handed out by other public functions
                handed += [x_] if isinstance(x_, np.ndarray) else ([] if isinstance(x_, cm.Raised) else mi.arrays_of(x_))
            for sh_ in pool["basis"]:
                handed += [sh_.angmom_components_cart, cm.call(lambda x_: x_.norm_prim_cart, sh_),
                           cm.call(_gt, int(sh_.angmom), sh_.angmom_components_cart, tuple(sh_.angmom_components_sph), "left")]
            nscr = 0
            for arr in handed:
                if isinstance(arr, np.ndarray) and arr.flags.writeable and arr.size:
                    try:
                        rs_.shuffle(arr)  # in place, first axis
                        arr *= 3
                        arr += 1
                        nscr += 1
                    except Exception:  # noqa: BLE001
                        pass
            after = probes()
            evals += 1
            for q_, (x_, y_) in enumerate(zip(before, after)):
                if isinstance(x_, cm.Raised) or isinstance(y_, cm.Raised):
                    okq = type(x_) is type(y_)
                    why = "one of the probes raised"
                else:
                    okq, why = same_value(x_, y_)
                if not okq:
                    viols.append(cm.viol("[%s] after the caller overwrote arrays that earlier calls had returned, probe %d gives a different result: %s" % (pass_name, q_, why),
                                         "returned_array_shared", op=name))
                    break
            rec.append((o, None, None, None))
            continue
        if name == "upd_zero_coeffs":
            # coefficients that cannot be normalised (all zero): if the renormalisation REJECTS them (raises), the shell's
            # normalisation must be what it was before the call ("whether it returns or raises"); either way the old
            # coefficients are put back and renormalised afterwards, and the shell must be unit-normalised again
            s_ = pool["basis"][o["shell"] % len(pool["basis"])]
            old_c = np.array(s_.coeffs)
            with np.errstate(all="ignore"):
                try:
                    s_.coeffs = np.zeros_like(old_c)
                    before_ = mi.digest(np.array(s_.norm_cont))
                    try:
                        s_.assign_norm_cont()
                    except Exception as exc_:  # noqa: BLE001
                        if mi.digest(np.array(s_.norm_cont)) != before_:
                            viols.append(cm.viol("[%s] assign_norm_cont() raised %s for coefficients it cannot normalise but had already overwritten the shell's normalisation" % (pass_name, type(exc_).__name__),
                                                 "rejected_renormalisation_modified_shell", op=name))
                finally:
                    s_.coeffs = old_c
                    for t_ in pool["basis"]:
                        if t_ is s_ or np.shares_memory(t_.coeffs, s_.coeffs):
                            t_.assign_norm_cont()
                S_ = cm.call(overlap_integral, [s_])
            evals += 1
            if isinstance(S_, np.ndarray) and not float(np.abs(np.diag(S_) - 1).max()) <= 1e-8:
                viols.append(cm.viol("[%s] after restoring the coefficients and renormalising, the shell's overlap diagonal deviates from 1 by %.3e" % (pass_name, float(np.abs(np.diag(S_) - 1).max())), "renormalisation", op=name))
            rec.append((o, None, None, None))
            continue
        if name in ("upd_bad_coeffs", "upd_bad_exps"):
            outcome, unchanged, s = apply_update(name, pool, o, frozen)
            evals += 1
            if outcome != "rejected":
                viols.append(cm.viol("[%s] an update with an array of the wrong length (%s) was accepted" % (pass_name, name), "bad_update_accepted", op=name))
                break
            if not unchanged:
                viols.append(cm.viol("[%s] a rejected parameter update (%s raised) nevertheless modified the shell" % (pass_name, name), "rejected_update_modified_shell", op=name))
                break
            rec.append((o, None, None, None))
            continue
        if name.startswith("upd_"):
            # derived quantities a library might memoise per shell are touched BEFORE the update (screened and plain
            # overlap, kinetic energy), so that anything stale afterwards is observable
            for tol_ in (None, 1e-1, 1e-3, 1e-6, 1e-10):
                cm.call(overlap_integral, list(pool["basis"]), tol_screen=tol_)
            geo0 = [(float(np.min(x.exps)), np.array(x.coord, dtype=float)) for x in pool["basis"]]
            try:
                s = apply_update(name, pool, o, frozen)
            except Exception as exc:  # noqa: BLE001
                # assigning a new parameter array (or renormalising) must work whatever the write flags of the arrays the shell
                # was given before: an exception here means the library wrote into an array that belongs to the caller
                viols.append(cm.viol("[%s] parameter update %s + assign_norm_cont() raised %s: %s%s" % (
                    pass_name, name, type(exc).__name__, str(exc)[:120], " (the arrays handed over earlier are write-protected in this pass: the update writes into them)" if frozen else ""),
                    "M-ro" if frozen else "update_raised", op=name))
                rec.append((o, None, None, None))
                continue
            # screening tolerances placed between the documented decision thresholds exp(-mu R^2) of the OLD and the NEW
            # parameters of every pair involving an updated shell: there a decision taken from stale parameters differs
            geo1 = [(float(np.min(x.exps)), np.array(x.coord, dtype=float)) for x in pool["basis"]]
            btols = []
            for i_ in range(len(geo0)):
                for j_ in range(i_):
                    t0_ = geo0[i_][0] * geo0[j_][0] / (geo0[i_][0] + geo0[j_][0]) * float(np.sum((geo0[i_][1] - geo0[j_][1]) ** 2))
                    t1_ = geo1[i_][0] * geo1[j_][0] / (geo1[i_][0] + geo1[j_][0]) * float(np.sum((geo1[i_][1] - geo1[j_][1]) ** 2))
                    if abs(t0_ - t1_) > 0.05 * max(t0_, t1_) and 0.02 < 0.5 * (t0_ + t1_) < 25.0:
                        btols.append(float(np.exp(-0.5 * (t0_ + t1_))))
            btols = sorted(set(btols))[:4]
            mi.STATE.count("C19:boundary-tolerances", len(btols))
            S = cm.call(overlap_integral, [s])
            evals += 1
            if isinstance(S, cm.Raised):
                viols.append(cm.unexpected(S, "overlap of an updated shell"))
            else:
                d = float(np.abs(np.diag(S) - 1).max())
                if not d <= 1e-8:
                    viols.append(cm.viol("after %s + assign_norm_cont() the shell's overlap diagonal deviates from 1 by %.3e" % (name, d), "renormalisation", d, 1e-8, op_index=k))
            # results depend only on the arguments: the updated basis must behave exactly like a basis constructed
            # from scratch with the same parameters (no stale derived state inside the shell objects)
            from gbasis.contractions import GeneralizedContractionShell as _G
            from gbasis.evals.eval_deriv import evaluate_deriv_basis as _edb
            from gbasis.integrals.kinetic_energy import kinetic_energy_integral as _kin
            from gbasis.integrals.point_charge import point_charge_integral as _pc

            with np.errstate(under="ignore"):
                fresh = [_G(int(x.angmom), np.array(x.coord), np.array(x.coeffs), np.array(x.exps), x.coord_type) for x in pool["basis"]]
            for nm, fn in (("overlap_integral", lambda b: overlap_integral(b)), ("kinetic_energy_integral", lambda b: _kin(b)),
                           ("overlap_integral(tol_screen=1e-1)", lambda b: overlap_integral(b, tol_screen=1e-1)),
                           ("overlap_integral(tol_screen=1e-3)", lambda b: overlap_integral(b, tol_screen=1e-3)),
                           ("overlap_integral(tol_screen=1e-6)", lambda b: overlap_integral(b, tol_screen=1e-6)),
                           ("overlap_integral(tol_screen=1e-10)", lambda b: overlap_integral(b, tol_screen=1e-10)),
                           ("evaluate_deriv_basis", lambda b: _edb(b, np.array(pool["pts"]), np.array([1, 0, 1]))),
                           ("point_charge_integral", lambda b: _pc(b, np.array(pool["pts"]), np.array(pool["chg"])))) + tuple(
                               ("overlap_integral(tol_screen=%.3e, between the old and the new threshold of a pair)" % t_, (lambda b, t_=t_: overlap_integral(b, tol_screen=t_))) for t_ in btols):
                a1, a2 = cm.call(fn, list(pool["basis"])), cm.call(fn, fresh)
                evals += 1
                if isinstance(a1, cm.Raised) or isinstance(a2, cm.Raised):
                    if type(a1) is not type(a2):
                        viols.append(cm.viol("%s behaves differently on an updated shell and on a shell constructed from the same parameters" % nm, "stale_state", op=name))
                    continue
                ok, why = same_value(a1, a2)
                if not ok:
                    viols.append(cm.viol("[%s] after %s + assign_norm_cont(), %s on the updated basis differs from the same basis constructed from scratch: %s" % (pass_name, name, nm, why),
                                         "stale_state", op=name, function=nm))
            rec.append((o, None, None, None))
            continue
        pre = copy.deepcopy(pool) if mode == "record" else None
        thunk = op_call(name, pool, o)
        mi.STATE.firings = []
        out = outcome_of(thunk)
        evals += 1
        if out[0] == "exc" and out[1] == "DupMismatch":
            viols.append(cm.viol("[%s, op %d %s] %s" % (pass_name, k, name, out[2]), "duplicate_shell_object", op=name))
        for f in mi.STATE.take_firings():
            if f["owner"] == "C19":
                viols.append(cm.viol("[%s, op %d %s] %s fired in %s: %s" % (pass_name, k, name, f["monitor"], f["function"], f["detail"]),
                                     f["monitor"], op=name, function=f["function"], detail=f["detail"][:200], outcome=out[0] if out[0] == "ok" else out[1]))
        key = (name, mi.digest({kk: vv for kk, vv in pool.items()}), tuple(o["r"]), o["shell"])
        if key in seen:
            ok, why = same_outcome(seen[key][1], out)
            evals += 1
            if not ok:
                viols.append(cm.viol("[%s] operation %s repeated at step %d with identical arguments gave a different outcome than at step %d: %s" % (pass_name, name, k, seen[key][0], why),
                                     "repeat_differs", op=name))
        else:
            seen[key] = (k, out)
        rec.append((o, key, out, pre))
    return rec, evals, seen


def run_case(case):
    if case.get("kind") == "testsuite":
        return run_testsuite(case)
    viols, errs = [], {}
    evals = 0
    tmp = tempfile.mkdtemp(prefix="c19-", dir=os.environ.get("TMPDIR", "/tmp"))
    files = {"nwchem": os.path.join(tmp, "b.nwchem"), "gbs": os.path.join(tmp, "b.gbs")}
    with open(files["nwchem"], "w") as fh:
        fh.write('# c\nBASIS "ao basis" PRINT\nH    S\n      1.30      0.50\n      0.40      0.70\nH    SP\n      0.9      1.0    0.5\nEND\n')
    with open(files["gbs"], "w") as fh:
        fh.write("! c\n! d\nH     0\nS   2   1.00\n      1.30D+00      0.50\n      0.40D+00      0.70\nSP   1   1.00\n      0.9      1.0    0.5\n****\n")
    old_err, old_call = np.geterr(), np.geterrcall()
    try:
        np.seterrcall(_errcall)
        if FP[case["fp"]]:
            np.seterr(**FP[case["fp"]])
        start_fp = mi.fpstate()
        # shells unit-normalised as constructed
        from gbasis.integrals.overlap import overlap_integral

        pool = make_pool(case, files)
        for s in pool["basis"]:
            S = cm.call(overlap_integral, [s])
            evals += 1
            if isinstance(S, np.ndarray):
                d = float(np.abs(np.diag(S) - 1).max())
                errs["norm_as_constructed"] = max(errs.get("norm_as_constructed", 0.0), d)
                if not d <= 1e-8:
                    viols.append(cm.viol("shell is not unit-normalised as constructed (%.3e)" % d, "normalisation", d, 1e-8))
        # pass 1: record
        rec, n1, seen = run_history(case, pool, "record", viols, "pass1")
        evals += n1
        nraise = sum(1 for (_, _, out, _) in rec if out is not None and out[0] == "exc")
        nrep = sum(1 for (_, key, _, _) in rec if key is not None) - len(seen)
        # pass 2: every op in shuffled order on a deep copy of the pool state it saw
        order = list(bases.rng_for("C19shuffle", *case["pool_seed"]).permutation(len(rec)))
        for idx in order:
            o, key, out, pre = rec[idx]
            if key is None:
                continue
            out2 = outcome_of(op_call(o["op"], pre, o))
            evals += 1
            ok, why = same_outcome(out, out2)
            if not ok:
                viols.append(cm.viol("[pass2] operation %s (step %d) evaluated again, out of order, on a pristine copy of the same arguments gave a different outcome: %s" % (o["op"], idx, why),
                                     "history_dependence", op=o["op"]))
        for f in mi.STATE.take_firings():
            if f["owner"] == "C19":
                viols.append(cm.viol("[pass2] %s fired in %s: %s" % (f["monitor"], f["function"], f["detail"]), f["monitor"], function=f["function"], detail=f["detail"][:200]))
        # pass 3: write-protect sentinel
        pool3 = make_pool(case, files)
        rec3, n3, _ = run_history(case, pool3, "frozen", viols, "pass3-readonly")
        evals += n3
        for (o, key, out, _), (_, _, out3, _) in zip(rec, rec3):
            if key is None:
                continue
            ok, why = same_outcome(out, out3)
            if not ok:
                viols.append(cm.viol("[pass3] operation %s behaves differently when every argument array is write-protected: %s%s" % (
                    o["op"], why, " -- " + out3[2] if out3[0] == "exc" else ""), "M-ro", op=o["op"]))
        if mi.fpstate() != start_fp:
            viols.append(cm.viol("numpy error state after the history differs from the one before: %r -> %r" % (start_fp[0], mi.fpstate()[0]), "M-fp-history"))
        errs["raising_ops"] = float(nraise)
        errs["repeated_keys"] = float(nrep)
    finally:
        np.seterr(**old_err)
        np.seterrcall(old_call)
        for f in files.values():
            try:
                os.remove(f)
            except OSError:
                pass
        try:
            os.rmdir(tmp)
        except OSError:
            pass
    # dedupe identical violation texts
    uniq, seen_txt = [], set()
    for v in viols:
        t = (v["qty"], v.get("op"), v.get("function"), v.get("detail"))
        if t not in seen_txt:
            seen_txt.add(t)
            uniq.append(v)
    nontrivial = len(case["ops"]) >= 5 and nraise >= 1 and nrep >= 1
    return {"evals": evals, "nontrivial": bool(nontrivial), "classes": case["classes"] + sorted({"op:" + o["op"] for o in case["ops"]}),
            "errs": errs, "violations": uniq}


def classify(case, v):
    if v.get("qty") == "M-fp" and v.get("function") == "electrostatic_potential" and "raising call" in v.get("detail", "") and "'divide', 'ignore'" in v.get("detail", ""):
        return "C19/esp-seterr-not-restored-on-raise"
    if v.get("qty") == "M-fp-history":
        return None
    if v.get("qty") == "M-pure" and v.get("function") == "make_contractions":
        return "C19/make_contractions-mutates-coord_types"
    return None


def summarize(cases, results, counts, lists, tier):
    ops = {}
    ts = [r["testsuite"] for r in results if r.get("testsuite")]
    for r in results:
        for c in r.get("classes", []):
            if c.startswith("op:"):
                ops[c[3:]] = ops.get(c[3:], 0) + 1
    return {"operation_kinds_exercised": len(ops), "operation_kinds": dict(sorted(ops.items())),
            "raising_operations": int(sum(r.get("errs", {}).get("raising_ops", 0) for r in results)),
            "repeated_keys": int(sum(r.get("errs", {}).get("repeated_keys", 0) for r in results)),
            "repository_testsuite_under_monitors": ts[0] if ts else "quick tier: not run"}


def inconclusive(results, counts, tier):
    out = []
    ops = {c for r in results for c in r.get("classes", []) if c.startswith("op:")}
    missing = [o for o in VALID_OPS + INVALID_OPS + UPDATE_OPS if "op:" + o not in ops]
    if missing:
        out.append("operation kinds never exercised: %s" % missing)
    return out
