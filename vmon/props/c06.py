"""C06 density, derivatives, gradient, Laplacian, Hessian, kinetic-energy densities equal their definitions."""
import itertools

import numpy as np

from vmon.gen import bases
from vmon.props import common as cm
from vmon.ref import dalgebra as da
from vmon.ref import gto

ID = "C06"
OWNS = ("C06",)
TOL = 1e-9
RULE = (
    "bases of 1-4 shells (l 0..4, generalized, cartesian/spherical per shell), symmetric density matrices (PSD full "
    "rank, PSD low rank, indefinite, diagonal, zero), 1-30 points, square/rectangular/absent transform, both derivative "
    "back-ends; the seven public functions of density.py are compared with D-algebra expressions (rho=D(0,0), "
    "derivatives by the total-derivative rule, t+ = 1/2 sum_k D(e_k,e_k), t_alpha = t+ + alpha*Laplacian) evaluated "
    "with the reference derivatives; bound 1e-9 * sum|gamma_ij| sc_i sc_j; all 125 derivative-order triples are "
    "enumerated across a run for evaluate_deriv_density; invariants on the observed arrays: Hessian symmetric, trace = "
    "observed Laplacian, gradient = observed first derivatives; threshold rule: for indefinite gamma with reference "
    "minimum v<0, thresholds |v|(1+-1e-6), |v|/2(1+-1e-6), 2|v|, 0 -> clipped to exactly 0 when |v|<=thr, ValueError "
    "when |v|>thr; PSD gamma -> outputs >= 0 and no error at the default threshold. non-trivial = gamma not zero, a "
    "shell with l>=1, and at least one derivative request of total order >= 1."
)
FLOOR = {"quick": 25, "thorough": 100}
DECIDING = ["eval:evaluate_density", "eval:evaluate_deriv_density", "eval:evaluate_density_gradient", "eval:evaluate_density_laplacian",
            "eval:evaluate_density_hessian", "eval:evaluate_posdef_kinetic_energy_density", "eval:evaluate_general_kinetic_energy_density"]
REQUIRED_LINES = [
    ("gbasis/evals/density.py", "if any(orders_one > 2) or any(orders_two > 2):"),
    ("gbasis/evals/density.py", "factor = 1"),
]
ASSUMPTIONS = ["reference derivatives from vmon/ref/gto.py after self-test; D-algebra (total-derivative rule) validated by finite differences in the self-test"]
ALL = list(itertools.product(range(5), repeat=3))


def gen_cases(tier, seed):
    n = 128 if tier == "quick" else 1200
    rng0 = bases.rng_for("C06", seed, tier, "orders")
    pool = []
    while len(pool) < 2 * n + 8:
        pool.extend(ALL[i] for i in rng0.permutation(len(ALL)))
    cases = []
    for i in range(n):
        rng = bases.rng_for("C06", seed, tier, i)
        nsh = int(rng.integers(1, 5))
        ls = [int(x) for x in rng.integers(0, 5, size=nsh)]
        if i % 4 == 0:
            ls[0] = 1 + (i // 4) % 4
        tp = list(bases.type_patterns(nsh)[(i // 2) % (2 ** nsh)]) if i % 2 else None
        shells, classes = bases.rand_basis(rng, ls, types=tp, scale=1.0, emax_fn=lambda l: min(bases.cap(l), 200.0))
        pts, pcls = bases.rand_points(rng, shells, bases.npts_pick(rng, 31))
        ntot = sum(bases.nfunc(s) for s in shells)
        T, tcls = bases.rand_transform(rng, ntot, "none" if i % 3 else None)
        norb = ntot if T is None else len(T)
        dm, dcls = bases.rand_sym(rng, norb, ["psd", "indef", "psd-lowrank", "indef", "diag", "psd", "diag-indef", "idempotent", "blockdiag", "diag-indef", "hollow"][i % 11] if i % 17 else "zero")
        if i % 5 == 3 and dcls in ("dm:indef", "dm:diag-indef", "dm:blockdiag", "dm:hollow"):
            # a density matrix of tiny norm (a difference of two nearly equal densities): its negative values lie below the
            # DEFAULT threshold 1e-8 in magnitude, so an explicit threshold of 0 (or of |v|/2) must still raise
            f_ = 10.0 ** -float(rng.uniform(8.3, 12.0))
            dm = [[v_ * f_ for v_ in row] for row in dm]
            dcls_extra = ["dm:tiny-norm"]
        else:
            dcls_extra = []
        alpha = [0, 1, -1, 0.5, float(rng.normal()), 2][i % 6]
        orders = [list(pool[2 * i]), list(pool[2 * i + 1])]
        cases.append({"shells": shells, "points": pts, "dm": dm, "transform": T, "alpha": alpha, "orders": orders,
                      "deriv_type": "direct" if i % 2 else "general",
                      "classes": classes + pcls + dcls_extra + [tcls, dcls, "alpha:%s" % ("special" if alpha in (0, 1, 0.5) else "generic"),
                                                   "backend:" + ("direct" if i % 2 else "general")] + ["o:%d%d%d" % tuple(o) for o in orders],
                      "cost": len(pts) * norb * norb * (1 + sum(max(o) for o in orders)) ** 2})
    for i in range(2 if tier == "quick" else 8):
        rng = bases.rng_for("C06", seed, tier, "manypts", i)
        ls = [int(x) for x in rng.integers(0, 3, size=2)]
        shells, classes = bases.rand_basis(rng, ls, scale=1.0, emax_fn=lambda l: 30.0, Kmax=2, Mmax=2)
        npts = int(rng.choice([1025, 2500]))
        pts = (np.array(shells[0]["c"]) + rng.normal(size=(npts, 3)) * 1.5).tolist()
        ntot = sum(bases.nfunc(s) for s in shells)
        dm, dcls = bases.rand_sym(rng, ntot, "psd" if i % 2 else "indef")
        orders = [[int(x) for x in rng.integers(0, 3, size=3)], [int(x) for x in rng.integers(0, 4, size=3)]]
        cases.append({"shells": shells, "points": pts, "dm": dm, "transform": None, "alpha": 0.3, "orders": orders, "deriv_type": "direct" if i % 2 else "general",
                      "classes": classes + ["pt:many(%d)" % npts, "T:none", dcls, "alpha:generic", "backend:" + ("direct" if i % 2 else "general")] + ["o:%d%d%d" % tuple(o) for o in orders],
                      "cost": npts * ntot * ntot})
    cases += bases.argrep_variants("C06", seed, tier, cases, 6, ok=lambda c: "shells" in c and c.get("kind") in (None, "whole", "kernel", "perm", "real"))  # constructor arguments in other in-memory representations
    return cases


class Ref:
    def __init__(self, rs, pts, T):
        self.rs, self.pts, self.T = rs, pts, T
        self.cache = {}

    def _get(self, p):
        p = tuple(int(x) for x in p)
        if p not in self.cache:
            v, sc = gto.eval_deriv_basis(self.rs, self.pts, p, with_scale=True)
            if self.T is not None:
                v, sc = self.T @ v, np.abs(self.T) @ sc
            self.cache[p] = (v, sc)
        return self.cache[p]

    def val(self, p):
        return self._get(p)[0]

    def sc(self, p):
        return self._get(p)[1]

    def ev(self, term, dm):
        return da.evaluate(term, dm, self.val, self.sc)


def run_case(case):
    from gbasis.evals import density as D

    shells = case["shells"]
    pts = np.array(case["points"], dtype=float).reshape(-1, 3)
    T = None if case["transform"] is None else np.array(case["transform"], dtype=float)
    dm = np.array(case["dm"], dtype=float)
    alpha = case["alpha"]
    dt = case["deriv_type"]
    viols, errs = [], {}
    evals = [0]
    rs = cm.rshells(shells)
    rkind = cm.REPS[(len(case["dm"]) + len(pts)) % len(cm.REPS)]  # representation / dtype of the array arguments
    pts = cm.rep_values(pts, rkind)
    if T is not None:
        T = cm.rep_values(T, rkind, scale=2.0)
    R = Ref(rs, pts, T)
    kw = {} if T is None else {"transform": cm.rep_typed(T, rkind)}
    N = len(pts)
    dm_in = dm
    dm = cm.rep(dm_in, rkind if rkind not in ("int", "f32") else "c")  # the density matrix must be float64 (documented)
    pts = cm.rep_typed(pts, rkind)

    def chk(out, ref, sc, what, qty, **k):
        evals[0] += 1
        return cm.compare(out, ref, TOL, what, qty, viols, errs, scale=sc + 1e-280, **k)

    def B():
        return cm.build(shells)

    rho, rho_sc = R.ev(da.rho(), dm)
    tpos, tpos_sc = R.ev(da.posdef_ked(), dm)
    big = 1e30  # threshold that never raises
    # ---- density (threshold semantics handled below; here: compare where no clipping applies)
    out = cm.call(D.evaluate_density, dm, B(), pts, threshold=big, **kw)
    chk(out, np.clip(rho, 0, None), rho_sc, "evaluate_density(threshold=inf)", "density")
    # ---- arbitrary-order derivatives
    for o in case["orders"]:
        o = tuple(int(x) for x in o)
        ref, sc = R.ev(da.deriv_density(o), dm)
        out = cm.call(D.evaluate_deriv_density, np.array(o, dtype=int), dm, B(), pts, deriv_type=dt, **kw)
        chk(out, ref, sc, "evaluate_deriv_density(orders=%s, %s)" % (o, dt), "deriv_density", orders=list(o))
    # ---- the building block itself: derivative of the reduced density matrix D(p, q) on the diagonal, and the density
    # from already evaluated orbitals
    rngq = bases.rng_for("C06rdm", case["cid"] if "cid" in case else 0)
    for _ in range(2):
        o1 = tuple(int(x) for x in rngq.integers(0, 3, size=3))
        o2 = tuple(int(x) for x in rngq.integers(0, 3, size=3))
        ref, sc = R.ev(da.term(o1, o2), dm)
        out = cm.call(D.evaluate_deriv_reduced_density_matrix, np.array(o1, dtype=int), np.array(o2, dtype=int), dm, B(), pts, deriv_type=dt, **kw)
        chk(out, ref, sc, "evaluate_deriv_reduced_density_matrix(%s, %s, %s)" % (o1, o2, dt), "rdm_deriv", orders=[list(o1), list(o2)])
    orb = R.val((0, 0, 0))
    out = cm.call(D.evaluate_density_using_evaluated_orbs, dm, np.array(orb, dtype=float))
    chk(out, rho, rho_sc, "evaluate_density_using_evaluated_orbs", "density_from_orbs")
    # ---- gradient, laplacian, hessian
    gref = [R.ev(da.deriv_density(da.e(k)), dm) for k in range(3)]
    g = cm.call(D.evaluate_density_gradient, dm, B(), pts, deriv_type=dt, **kw)
    chk(g, np.stack([x[0] for x in gref], axis=1), np.stack([x[1] for x in gref], axis=1), "evaluate_density_gradient", "gradient")
    lref, lsc = R.ev(da.laplacian(), dm)
    lap = cm.call(D.evaluate_density_laplacian, dm, B(), pts, deriv_type=dt, **kw)
    chk(lap, lref, lsc, "evaluate_density_laplacian", "laplacian")
    href = np.zeros((N, 3, 3))
    hsc = np.zeros((N, 3, 3))
    for i in range(3):
        for j in range(3):
            href[:, i, j], hsc[:, i, j] = R.ev(da.deriv_density(da.plus(da.e(i), da.e(j))), dm)
    H = cm.call(D.evaluate_density_hessian, dm, B(), pts, deriv_type=dt, **kw)
    chk(H, href, hsc, "evaluate_density_hessian", "hessian")
    # invariants on observed arrays
    if isinstance(H, np.ndarray) and H.shape == (N, 3, 3):
        e = cm.maxerr(H, np.swapaxes(H, 1, 2), hsc + 1e-280)[0]
        errs["hessian_symmetric"] = e
        evals[0] += 1
        if not e <= TOL:
            viols.append(cm.viol("density Hessian is not symmetric (%.3e of scale)" % e, "hessian_symmetric", e, TOL))
        if isinstance(lap, np.ndarray) and lap.shape == (N,):
            e = cm.maxerr(np.trace(H, axis1=1, axis2=2), lap, lsc + 1e-280)[0]
            errs["hessian_trace"] = e
            evals[0] += 1
            if not e <= 3 * TOL:
                viols.append(cm.viol("trace of the density Hessian differs from the observed Laplacian (%.3e of scale)" % e, "hessian_trace", e, 3 * TOL))
    if isinstance(g, np.ndarray) and g.shape == (N, 3):
        for k in range(3):
            d1 = cm.call(D.evaluate_deriv_density, np.array(da.e(k), dtype=int), dm, B(), pts, deriv_type=dt, **kw)
            if isinstance(d1, np.ndarray) and d1.shape == (N,):
                e = cm.maxerr(g[:, k], d1, gref[k][1] + 1e-280)[0]
                errs["gradient_vs_deriv"] = max(errs.get("gradient_vs_deriv", 0.0), e)
                evals[0] += 1
                if not e <= TOL:
                    viols.append(cm.viol("gradient component %d differs from the observed first derivative (%.3e)" % (k, e), "gradient_vs_deriv", e, TOL))
    # ---- kinetic-energy densities
    out = cm.call(D.evaluate_posdef_kinetic_energy_density, dm, B(), pts, deriv_type=dt, threshold=big, **kw)
    chk(out, np.clip(tpos, 0, None), tpos_sc, "evaluate_posdef_kinetic_energy_density(threshold=inf)", "posdef_ked")
    gk_ref = tpos + alpha * lref
    gk_sc = tpos_sc + abs(alpha) * lsc
    out = cm.call(D.evaluate_general_kinetic_energy_density, dm, B(), pts, alpha, deriv_type=dt, **kw)
    evals[0] += 1
    tmin = float(tpos.min())
    noise = float(TOL * tpos_sc.max())
    if tmin >= -noise * 0 and tmin >= 0:
        cm.compare(out, gk_ref, TOL, "evaluate_general_kinetic_energy_density(alpha=%r)" % alpha, "general_ked", viols, errs, scale=gk_sc + 1e-280)
    else:
        # t+ has negative values (indefinite gamma): accept the defining sum, or the documented composition
        # through the positive-definite routine at its default threshold 1e-8 (clip / ValueError)
        ok = False
        if isinstance(out, cm.Raised):
            ok = out.type == "ValueError" and abs(tmin) > 1e-8 * (1 - 1e-6)
        elif isinstance(out, np.ndarray) and out.shape == gk_ref.shape:
            e1 = cm.maxerr(out, gk_ref, gk_sc + 1e-280)[0]
            e2 = cm.maxerr(out, np.clip(tpos, 0, None) + alpha * lref, gk_sc + 1e-280)[0]
            ok = e1 <= TOL or (e2 <= TOL and abs(tmin) <= 1e-8 * (1 + 1e-6))
        errs["general_ked_indefinite_ok"] = 0.0 if ok else 1.0
        if not ok:
            viols.append(cm.viol("evaluate_general_kinetic_energy_density with an indefinite density matrix (min t+ = %.3e) returned neither the defining sum nor the documented clip/raise composition: %r" % (tmin, out if isinstance(out, cm.Raised) else "array"),
                                 "general_ked_indefinite"))
    # ---- threshold rule
    for name, fn, v, vsc, extra in (("density", D.evaluate_density, rho, rho_sc, {}),
                                    ("posdef_ked", D.evaluate_posdef_kinetic_energy_density, tpos, tpos_sc, {"deriv_type": dt})):
        i0 = int(np.argmin(v))
        vmin = float(v[i0])
        if vmin < 0 and abs(vmin) > 1e-5 * float(vsc[i0]) and abs(vmin) > 1e-250:  # (a bracket of relative width 1e-6 needs normal numbers: FA27)
            a = abs(vmin)
            for thr, expect in ((a * (1 + 1e-6), "clip"), (a * (1 - 1e-6), "raise"), (a / 2 * (1 + 1e-6), "raise"), (a / 2 * (1 - 1e-6), "raise"),
                                (2 * a, "clip"), (0.0, "raise"), (a * 1e3, "clip")):
                out = cm.call(fn, dm, B(), pts, threshold=thr, **extra, **kw)
                evals[0] += 1
                if expect == "raise":
                    if not isinstance(out, cm.Raised):
                        viols.append(cm.viol("%s: most negative value %.6e exceeds threshold %.6e in magnitude but no error was raised" % (name, vmin, thr),
                                             name + "_threshold_raise", thr=thr, vmin=vmin))
                else:
                    if isinstance(out, cm.Raised):
                        viols.append(cm.viol("%s: most negative value %.6e is within threshold %.6e but %s was raised instead of returning 0" % (name, vmin, thr, out.type),
                                             name + "_threshold_clip", thr=thr, vmin=vmin, ratio=thr / a))
                    elif isinstance(out, np.ndarray) and out.shape == v.shape:
                        if out[i0] != 0.0 or float(out.min()) < 0.0:
                            viols.append(cm.viol("%s: negative value within threshold not returned as exactly 0 (got %.3e, min %.3e)" % (name, out[i0], out.min()),
                                                 name + "_threshold_clip_value", thr=thr, vmin=vmin))
                        e = cm.maxerr(out, np.clip(v, 0, None), vsc + 1e-280)[0]
                        if not e <= TOL:
                            viols.append(cm.viol("%s with threshold %.3e deviates from clip(definition) by %.3e" % (name, thr, e), name + "_clipped_values", e, TOL))
            errs[name + "_threshold_cases"] = 0.0
        elif vmin >= 0 or "dm:psd" in case["classes"] or "dm:psd-lowrank" in case["classes"] or "dm:diag" in case["classes"]:
            if any(c in case["classes"] for c in ("dm:psd", "dm:psd-lowrank", "dm:diag", "dm:zero")):
                out = cm.call(fn, dm, B(), pts, **extra, **kw)
                evals[0] += 1
                if isinstance(out, np.ndarray) and out.shape == v.shape:
                    # at the default threshold nothing but negative values may be altered (small positive values in the
                    # tails of the functions are returned as they are)
                    e = cm.maxerr(out, np.clip(v, 0, None), vsc + 1e-280)[0]
                    errs[name + "_default_threshold"] = max(errs.get(name + "_default_threshold", 0.0), e)
                    if not e <= TOL:
                        viols.append(cm.viol("%s at the default threshold deviates from the definition by %.3e of the scale for a PSD density matrix" % (name, e), name + "_default_threshold", e, TOL))
                if isinstance(out, cm.Raised):
                    # rounding may produce a tiny negative number; only a value beyond rounding noise is judged
                    if abs(vmin) <= 1e-8 or vmin >= -TOL * float(vsc.max()):
                        viols.append(cm.viol("%s raised %s for a positive semi-definite density matrix at the default threshold" % (name, out.type), name + "_psd_raise"))
                elif isinstance(out, np.ndarray) and out.size and float(out.min()) < 0:
                    viols.append(cm.viol("%s returned a negative value %.3e for a PSD density matrix" % (name, out.min()), name + "_psd_negative"))
                # a value of exactly 0 (zero or diagonal density matrix, nodal plane, underflow) is not negative: if the smallest
                # positive threshold is accepted (no value below -1e-300), an explicit threshold of 0 must be accepted as well
                tiny = cm.call(fn, dm, B(), pts, threshold=1e-300, **extra, **kw)
                if isinstance(tiny, np.ndarray):
                    zero = cm.call(fn, dm, B(), pts, threshold=0.0, **extra, **kw)
                    evals[0] += 1
                    if isinstance(zero, cm.Raised):
                        viols.append(cm.viol("%s raised %s at threshold 0 although no value is negative (smallest value %.3e, threshold 1e-300 is accepted)" % (name, zero.type, float(tiny.min()) if tiny.size else 0.0),
                                             name + "_threshold_zero_raise"))
    nontrivial = "dm:zero" not in case["classes"] and any(s["l"] >= 1 for s in shells) and any(sum(o) >= 1 for o in case["orders"])
    return {"evals": evals[0], "nontrivial": bool(nontrivial), "classes": case.get("classes", []) + ["rep:" + rkind], "errs": errs, "violations": viols}


def classify(case, v):
    if v.get("qty") == "posdef_ked_threshold_clip" and 1.0 <= v.get("ratio", 0) <= 2.0 * (1 + 1e-9):
        return "C06/posdef-ked-threshold-tested-on-twice-the-value"
    return None


def summarize(cases, results, counts, lists, tier):
    tr = {x for c in cases for x in c.get("classes", []) if x.startswith("o:")}
    thr = sum(1 for r in results if any(k.endswith("_threshold_cases") for k in r.get("errs", {})))
    return {"enumerated": {"derivative order triples 0..4^3": "%d of 125" % len(tr)}, "cases_with_threshold_bracketing": thr,
            "bound": "1e-9 * sum|gamma_ij| sc_i sc_j"}


def inconclusive(results, counts, tier):
    thr = sum(1 for r in results if any(k.endswith("_threshold_cases") for k in r.get("errs", {})))
    return [] if thr >= 3 else ["only %d cases exercised the clipping/raising threshold rule" % thr]
