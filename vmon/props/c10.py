"""C10 the Cartesian-to-spherical matrix is the set of real regular solid harmonics."""
import itertools
import math

import numpy as np

from vmon.gen import bases
from vmon.props import common as cm
from vmon.ref import gto

ID = "C10"
OWNS = ("C10",)
RULE = (
    "generate_transformation observed for every l = 0..10 and every m (complete): each row, read as a polynomial "
    "through the unit-normalised Cartesian norms, must be homogeneous harmonic (Laplacian of the coefficient "
    "dictionary, 1e-12), rows orthonormal under the metric of unit-normalised Cartesian Gaussians (1e-12), on rings "
    "near the pole the c_m/s_m rows equal A_m cos(m phi)/A_m sin(m phi) with a common A_m>0, default order as "
    "documented and equal to the model's own matrix; left == right.T bitwise; caller-specified Cartesian order "
    "(every permutation for l<=2, random and in the thorough tier all 10! for l=3, random above), spherical order and "
    "signs (every order/sign pattern for l<=2, random above) must give the default result permuted/signed exactly; "
    "malformed conventions (wrong count, duplicates, wrong m, wrong letters/case, stray minus anywhere, non-string, "
    "non-list, duplicate/ill-summed Cartesian components, bad side) must raise. distinct = distinct (kind, l, "
    "convention) descriptor; non-trivial = l >= 1."
)
FLOOR = {"quick": 25, "thorough": 60}
DECIDING = ["eval:generate_transformation"]
EXHAUSTIVE = True
ASSUMPTIONS = ["characterisation of real regular solid harmonics (harmonic, homogeneous, orthonormal, azimuthal form) is independent of any closed formula; the model matrix of vmon/ref/gto.py is an additional cross-check"]


def default_sph(l):
    return gto.default_sph_order(l)


def default_cart(l):
    return gto.cart_components(l)


def unrank_perm(n, k):
    items = list(range(n))
    out = []
    for i in range(n, 0, -1):
        f = math.factorial(i - 1)
        j, k = divmod(k, f)
        out.append(items.pop(j))
    return out


def gen_cases(tier, seed):
    cases = []
    for l in range(11):
        cases.append({"kind": "char", "l": l, "cost": 1 + l ** 3})
    # cartesian permutations: exhaustive l<=2
    for l in (0, 1, 2):
        n = (l + 1) * (l + 2) // 2
        cases.append({"kind": "cartperm", "l": l, "start": 0, "count": math.factorial(n), "cost": math.factorial(n) * 0.2})
    n3 = math.factorial(10)
    if tier == "thorough":
        chunk = n3 // 160
        for k in range(0, n3, chunk):
            cases.append({"kind": "cartperm", "l": 3, "start": k, "count": min(chunk, n3 - k), "cost": chunk * 0.3})
    else:
        rng = bases.rng_for("C10", seed, "cp3")
        for k in range(16):
            cases.append({"kind": "cartperm", "l": 3, "start": int(rng.integers(0, n3 - 200)), "count": 150, "cost": 50})
    for l in range(4, 11):
        cases.append({"kind": "cartperm-random", "l": l, "n": 30 if tier == "quick" else 200, "seed": [seed, l], "cost": 30 * l})
    # spherical order / sign patterns: exhaustive l<=2
    for l in (0, 1, 2):
        cases.append({"kind": "sphperm", "l": l, "cost": 10 + 3000 * (l == 2)})
    for l in range(3, 11):
        cases.append({"kind": "sphperm-random", "l": l, "n": 40 if tier == "quick" else 300, "seed": [seed, l], "cost": 40 * l})
    for l in range(0, 5):
        cases.append({"kind": "malformed", "l": l, "cost": 20})
    return cases


def poly_of_row(row, order):
    ncart = [1 / math.sqrt(gto.dfact(2 * c[0] - 1) * gto.dfact(2 * c[1] - 1) * gto.dfact(2 * c[2] - 1)) for c in order]
    return {tuple(c): row[i] * ncart[i] for i, c in enumerate(order)}


def laplacian(pol):
    lap = {}
    for (a, b, c), v in pol.items():
        for ax, n in enumerate((a, b, c)):
            if n >= 2:
                k = [a, b, c]
                k[ax] -= 2
                lap[tuple(k)] = lap.get(tuple(k), 0.0) + v * n * (n - 1)
    return lap


def peval(pol, x, y, z):
    return sum(v * x ** a * y ** b * z ** c for (a, b, c), v in pol.items())


def metric(order):
    ncart = np.array([1 / math.sqrt(gto.dfact(2 * c[0] - 1) * gto.dfact(2 * c[1] - 1) * gto.dfact(2 * c[2] - 1)) for c in order])
    G = np.array([[ncart[i] * ncart[j] * gto.gauss3d_monomial_moment(tuple(a + b for a, b in zip(ci, cj))) for j, cj in enumerate(order)] for i, ci in enumerate(order)])
    return G / np.sqrt(np.outer(np.diag(G), np.diag(G)))


def run_case(case):
    from gbasis.contractions import GeneralizedContractionShell
    from gbasis.spherical import generate_transformation

    l = case["l"]
    kind = case["kind"]
    viols, errs = [], {}
    evals = 0
    co = default_cart(l)
    so = default_sph(l)
    classes = [kind, "l:%d" % l]

    def gt(cart, sph, side="left", dtype=int):
        return cm.call(generate_transformation, l, np.array(cart, dtype=dtype).reshape(-1, 3), sph, side)

    base = gt(co, tuple(so))
    if isinstance(base, cm.Raised) or not isinstance(base, np.ndarray) or base.shape != (2 * l + 1, len(co)):
        viols.append(cm.unexpected(base, "generate_transformation(default conventions)") if isinstance(base, cm.Raised)
                     else cm.viol("generate_transformation returned shape %s" % (getattr(base, "shape", None),), "shape"))
        return {"evals": 1, "nontrivial": l >= 1, "classes": classes, "errs": errs, "violations": viols}

    if kind == "char":
        # documented default order reported by the shell object itself
        sh = GeneralizedContractionShell(l, np.zeros(3), np.ones(1), np.ones(1), "spherical")
        if [tuple(int(v) for v in c) for c in sh.angmom_components_cart] != [tuple(c) for c in co] or list(sh.angmom_components_sph) != list(so):
            viols.append(cm.viol("shell reports component orders that differ from the documented defaults for l=%d" % l, "default_order"))
        evals += 1
        G = metric(co)
        e = float(np.abs(base @ G @ base.T - np.eye(2 * l + 1)).max())
        errs["orthonormal"] = e
        evals += 1
        if not e <= 1e-12:
            viols.append(cm.viol("rows are not orthonormal for unit-normalised Cartesian functions (%.3e), l=%d" % (e, l), "orthonormal", e, 1e-12))
        for i, lab in enumerate(so):
            pol = poly_of_row(base[i], co)
            mx = max(abs(v) for v in pol.values())
            lap = laplacian(pol)
            e = max([abs(v) for v in lap.values()] or [0.0]) / mx
            errs["harmonic"] = max(errs.get("harmonic", 0.0), e)
            evals += 1
            if not e <= 1e-12:
                viols.append(cm.viol("row %s of l=%d is not harmonic (Laplacian %.3e of max coefficient)" % (lab, l, e), "harmonic", e, 1e-12))
            if any(sum(k) != l for k, v in pol.items() if v != 0.0):
                viols.append(cm.viol("row %s of l=%d is not homogeneous of degree l" % (lab, l), "homogeneous"))
        # azimuthal form and sign near the pole
        phis = np.arange(16) * 2 * np.pi / 16 + 0.1
        for th in (0.05, 1e-3):
            amp = {}
            for i, lab in enumerate(so):
                m = int(lab[1:])
                pol = poly_of_row(base[i], co)
                vals = np.array([peval(pol, math.sin(th) * math.cos(p), math.sin(th) * math.sin(p), math.cos(th)) for p in phis])
                f = np.cos(m * phis) if lab[0] == "c" else np.sin(m * phis)
                A = float(vals @ f / (f @ f))
                res = float(np.abs(vals - A * f).max()) / (abs(A) + 1e-300)
                errs["azimuthal"] = max(errs.get("azimuthal", 0.0), res)
                evals += 1
                if not res <= 1e-9:
                    viols.append(cm.viol("row %s of l=%d does not vary as %s(m phi) about z (residual %.3e)" % (lab, l, "cos" if lab[0] == "c" else "sin", res), "azimuthal", res, 1e-9))
                if not A > 0:
                    viols.append(cm.viol("row %s of l=%d has a non-positive factor %.3e near the pole" % (lab, l, A), "pole_sign"))
                amp.setdefault(m, {})[lab[0]] = A
            for m, d in amp.items():
                if "c" in d and "s" in d:
                    e = abs(d["c"] - d["s"]) / abs(d["c"])
                    errs["common_factor"] = max(errs.get("common_factor", 0.0), e)
                    if not e <= 1e-9:
                        viols.append(cm.viol("cosine/sine partners m=%d of l=%d have different factors (%.3e)" % (m, l, e), "common_factor", e, 1e-9))
        model = gto.sph_transform(l, tuple(co), tuple(so))
        cm.compare(base, model, 1e-12, "generate_transformation(l=%d) vs model matrix" % l, "model", viols, errs)
        evals += 1
        right = gt(co, tuple(so), "right")
        evals += 1
        if isinstance(right, cm.Raised) or not np.array_equal(np.asarray(right).T, base):
            viols.append(cm.viol("'left' and 'right' forms are not exact transposes for l=%d" % l, "left_right"))
        lst = gt(co, list(so))
        if isinstance(lst, cm.Raised) or not np.array_equal(lst, base):
            viols.append(cm.viol("spherical order given as a list is not honoured like a tuple", "list_vs_tuple"))
    elif kind in ("cartperm", "cartperm-random"):
        n = len(co)
        if kind == "cartperm":
            perms = (unrank_perm(n, k) for k in range(case["start"], case["start"] + case["count"]))
        else:
            rng = bases.rng_for("C10", "cp", *case["seed"])
            perms = (list(rng.permutation(n)) for _ in range(case["n"]))
        bad = 0
        DT = (int, np.int8, np.int16, np.int32, np.int64)  # signed integer widths of the caller's component array (unsigned arrays are outside the scope: 2n-1 wraps)
        for perm in perms:
            out = gt([co[i] for i in perm], tuple(so), "left" if evals % 2 else "right", dtype=DT[evals % len(DT)] if kind == "cartperm-random" or evals % 7 == 0 else int)
            want = base[:, perm] if evals % 2 else base[:, perm].T
            evals += 1
            if isinstance(out, cm.Raised) or not np.array_equal(out, want):
                bad += 1
                if bad <= 2:
                    viols.append(cm.viol("Cartesian order permutation %s of l=%d is not honoured exactly" % (list(map(int, perm)), l), "cart_order", perm=list(map(int, perm))))
        errs["cart_order_mismatches"] = float(bad)
    elif kind in ("sphperm", "sphperm-random"):
        n = 2 * l + 1
        if kind == "sphperm":
            pats = ((perm, signs) for perm in itertools.permutations(range(n)) for signs in itertools.product((1, -1), repeat=n))
        else:
            rng = bases.rng_for("C10", "sp", *case["seed"])
            pats = ((list(rng.permutation(n)), list(rng.choice([1, -1], size=n))) for _ in range(case["n"]))
        bad = 0
        for perm, signs in pats:
            labs = tuple(("-" if s < 0 else "") + so[i] for i, s in zip(perm, signs))
            want = base[list(perm)] * np.array(signs, dtype=float)[:, None]
            if evals % 5 == 0:  # the same list object handed over twice: must be left alone and give the same answer
                lst = list(labs)
                first = gt(co, lst)
                out = gt(co, lst, "right")
                out = out if isinstance(out, cm.Raised) else np.asarray(out).T
                evals += 1
                if lst != list(labs):
                    viols.append(cm.viol("the caller's spherical_order list was modified: %s -> %s" % (list(labs), lst), "labels_mutated", labels=list(labs)))
                elif isinstance(first, cm.Raised) or not np.array_equal(first, want):
                    out = first
            else:
                out = gt(co, labs)
            evals += 1
            if isinstance(out, cm.Raised) or not np.array_equal(out, want):
                bad += 1
                if bad <= 2:
                    viols.append(cm.viol("spherical order/sign convention %s of l=%d is not honoured exactly" % (list(labs), l), "sph_order", labels=list(labs)))
        errs["sph_order_mismatches"] = float(bad)
    elif kind == "malformed":
        pats = malformed(l, co, so)
        acc = 0
        for name, cart, sph, side in pats:
            out = cm.call(generate_transformation, l, cart, sph, side)
            evals += 1
            if not isinstance(out, cm.Raised):
                acc += 1
                viols.append(cm.viol("invalid convention accepted (%s): l=%d labels=%r -> returned an array instead of raising" % (name, l, sph if name.startswith("sph") else "..."),
                                     "malformed_accepted", pattern=name, labels=repr(sph)[:200]))
            elif out.type not in ("TypeError", "ValueError", "KeyError", "IndexError", "AttributeError"):
                pass  # any exception counts as rejected
        errs["malformed_accepted"] = float(acc)
        classes.append("patterns:%d" % len(pats))
    return {"evals": evals, "nontrivial": l >= 1, "classes": classes, "errs": errs, "violations": viols}


def malformed(l, co, so):
    co = np.array(co, dtype=int).reshape(-1, 3)
    so = list(so)
    P = []

    def sph(name, labels):
        P.append(("sph:" + name, co, labels, "left"))

    sph("too-few", tuple(so[:-1]))
    sph("too-many", tuple(so + [so[-1]]))
    sph("non-list(str)", "".join(so))
    sph("non-list(array)", np.array(so))
    sph("non-list(set)", set(so))
    sph("non-string-entry", tuple([0] + so[1:]))
    sph("none-entry", tuple([None] + so[1:]))
    sph("wrong-m", tuple(["c%d" % (l + 1)] + so[1:]))
    sph("upper-case", tuple([so[0].upper()] + so[1:]))
    sph("wrong-letter", tuple(["x" + so[0][1:]] + so[1:]))
    sph("leading-space", tuple([" " + so[0]] + so[1:]))
    sph("double-minus", tuple(["--" + so[0]] + so[1:]))
    sph("trailing-minus", tuple([so[0] + "-"] + so[1:]))
    sph("plus-sign", tuple(["+" + so[0]] + so[1:]))
    sph("inner-minus-first", tuple([so[0][0] + "-" + so[0][1:]] + so[1:]))
    sph("inner-minus-last", tuple(so[:-1] + [so[-1][0] + "-" + so[-1][1:]]))
    sph("minus-inner-minus", tuple(["-" + so[0][0] + "-" + so[0][1:]] + so[1:]))
    sph("zero-padded", tuple([so[0][0] + "0" + so[0][1:]] + so[1:]))
    if l >= 1:
        sph("duplicate", tuple([so[1]] + so[1:]))
        sph("duplicate-signed", tuple(["-" + so[1]] + so[1:]))
        sph("s0", tuple(["s0" if x == "c0" else x for x in so]))
        for i, x in enumerate(so):
            if x[0] == "c" and x != "c0":
                sph("c-m-for-c+m(%s)" % x, tuple(so[:i] + ["c-" + x[1:]] + so[i + 1:]))
                break
        for i, x in enumerate(so):
            if x[0] == "s":
                sph("s-m(%s)" % x, tuple(so[:i] + ["s-" + x[1:]] + so[i + 1:]))
                break
    P.append(("side:bad", co, tuple(so), "middle"))
    P.append(("side:none", co, tuple(so), None))
    P.append(("angmom:negative-shape", np.zeros((0, 3), dtype=int), tuple(so), "left") if l > 0 else ("cart:extra-row", np.zeros((2, 3), dtype=int), tuple(so), "left"))
    P.append(("cart:list-not-array", [tuple(c) for c in co], tuple(so), "left"))
    if l >= 1:
        bad = co.copy()
        bad[0] = bad[0] + np.array([1, 0, 0])
        P.append(("cart:sum-not-l", bad, tuple(so), "left"))
        dup = co.copy()
        dup[0] = dup[1]
        P.append(("cart:duplicate-component", dup, tuple(so), "left"))
        neg = co.copy()
        neg[0] = np.array([l + 1, -1, 0])
        P.append(("cart:negative-component", neg, tuple(so), "left"))
        P.append(("cart:wrong-shape", co[:-1], tuple(so), "left"))
        if l >= 2:
            P.append(("cart:transposed", co.T.copy(), tuple(so), "left"))
    return P


def classify(case, v):
    if v.get("qty") == "malformed_accepted" and ("minus" in v.get("pattern", "") or "c-m" in v.get("pattern", "") or "s-m" in v.get("pattern", "")):
        return "C10/stray-minus-in-label-accepted"
    return None


def summarize(cases, results, counts, lists, tier):
    ls = sorted({c["l"] for c in cases if c["kind"] == "char"})
    ncp = sum(c.get("count", 0) for c in cases if c["kind"] == "cartperm" and c["l"] == 3)
    return {"enumerated": {"l values (all m each)": ls, "cartesian permutations l<=2": "all (1, 6, 720)",
                           "cartesian permutations l=3": "%d of %d" % (ncp, math.factorial(10)),
                           "spherical order/sign patterns l<=2": "all (2, 48, 3840)"},
            "exhaustive_note": "exhaustive refers to the finite (l, m) space l=0..10 and to the convention spaces listed under 'enumerated'"}
