"""C07 multipole moments exact for every order triple and origin."""
import itertools
import math

import numpy as np

from vmon.gen import bases
from vmon.props import common as cm
from vmon.ref import gto

ID = "C07"
OWNS = ("C07",)
TOL = 1e-8
RULE = (
    "bases of 1-4 shells (l 0..4, 1-4 primitives, 1-3 segments, cartesian/spherical per shell, with and without a "
    "square/rectangular transform); origins on a centre / off centre / 50 bohr away; every order triple 0..4^3 is "
    "enumerated across the cases of a run (lists of 1-6 triples in random sequence with repeats); moment_integral "
    "is compared with the polynomial-moment reference within 1e-8*sqrt(<a|m^2|a><b|m^2|b>) (Cauchy-Schwarz scale of "
    "the element), triples along the last axis in the order given; observed-only relations: (0,0,0) column = observed "
    "overlap, moments about a shifted origin = binomial combination of observed lower moments. non-trivial = the list "
    "contains a triple of total order >= 1 and the basis has a shell with l >= 1."
)
FLOOR = {"quick": 25, "thorough": 100}
DECIDING = ["eval:moment_integral", "kernel:Moment"]
REQUIRED_LINES = [("gbasis/integrals/moment.py", "return Moment(basis).construct_array_lincomb(")]
ASSUMPTIONS = ["reference model vmon/ref/gto.py after self-test"]

ALL = list(itertools.product(range(5), repeat=3))


def gen_cases(tier, seed):
    n = 128 if tier == "quick" else 7000
    rng0 = bases.rng_for("C07", seed, tier, "orders")
    pool = []
    while len(pool) < n * 3:
        pool.extend(ALL[i] for i in rng0.permutation(len(ALL)))
    cases = []
    for i in range(n):
        rng = bases.rng_for("C07", seed, tier, i)
        nsh = int(rng.integers(1, 5))
        ls = [int(x) for x in rng.integers(0, 5, size=nsh)]
        if i % 5 == 0:
            ls[0] = 4
        shells, classes = bases.rand_basis(rng, ls, scale=1.2)
        nt = int(rng.integers(1, 7)) if i >= 63 else int(rng.integers(2, 7))
        orders = [list(pool[(2 * i + k) % len(pool)]) for k in range(min(nt, 2))]
        while len(orders) < nt:
            orders.append(list(ALL[int(rng.integers(len(ALL)))]) if rng.random() < 0.6 else list(orders[int(rng.integers(len(orders)))]))
        orders = [orders[j] for j in rng.permutation(len(orders))]
        ok = str(rng.choice(["center", "off", "far", "zero"]))
        c = np.array(shells[int(rng.integers(nsh))]["c"])
        origin = {"center": c, "off": c + rng.normal(size=3), "far": c + 50 * np.array([0.6, -0.64, 0.48]), "zero": np.zeros(3)}[ok]
        ntot = sum(bases.nfunc(s) for s in shells)
        T, tcls = bases.rand_transform(rng, ntot, None if i % 2 else "none")
        shift = i % 3 == 0
        cases.append({"shells": shells, "orders": orders, "origin": [float(v) for v in origin], "transform": T, "shift": shift,
                      "classes": classes + ["origin:" + ok, tcls, "ntriples:%d" % nt] + ["o:%d%d%d" % tuple(o) for o in orders],
                      "cost": (2 if shift else 1) * sum((3 + a) * (3 + b) * len(x["e"]) * len(y["e"]) * (1 + max(max(o) for o in orders)) for x, a in zip(shells, ls) for y, b in zip(shells, ls))})
    for k, (la, lb) in enumerate(itertools.product(range(4), repeat=2)):
        rng = bases.rng_for("C07", seed, tier, "displaced", la, lb)
        shells, classes = bases.displaced_pair(rng, la, lb)
        orders = [list(ALL[int(rng.integers(len(ALL)))]) for _ in range(3)] + [[0, 0, 0]]
        cases.append({"shells": shells, "orders": orders, "origin": [float(v) for v in np.array(shells[0]["c"]) + rng.normal(size=3)], "transform": None, "shift": False,
                      "classes": classes + ["origin:off", "T:none", "ntriples:4"] + ["o:%d%d%d" % tuple(o) for o in orders], "cost": 60})
    # tight shells about one width apart, within and (C07 states no exponent range) 30x above the published range
    for k in range(10 if tier == "quick" else 80):
        rng = bases.rng_for("C07", seed, tier, "tight-near", k)
        la, lb = [(0, 0), (1, 1), (2, 2), (3, 3), (4, 4), (1, 0), (2, 1), (3, 2), (4, 3), (4, 2)][k % 10]
        shells, classes = bases.tight_near_pair(rng, la, lb, boost=[1.0, 30.0][k % 2])
        orders = [list(ALL[int(rng.integers(len(ALL)))]) for _ in range(2)] + [[0, 0, 0], [1, 0, 1]]
        cases.append({"shells": shells, "orders": orders, "origin": [float(v) for v in np.array(shells[0]["c"]) + rng.normal(size=3) * [0.0, 0.01, 1.0][k % 3]], "transform": None, "shift": False,
                      "classes": classes + ["origin:" + ["center", "near", "off"][k % 3], "T:none", "ntriples:4"] + ["o:%d%d%d" % tuple(o) for o in orders], "cost": 60})
    # one atom: shells of different angular momentum on exactly one centre, the moment origin exactly on it, low orders (the
    # Cartesian d, f, g functions contain the lower harmonics, so <s|d_xx>, <s|x|f_xxx>, <p|x|d>... do not vanish)
    for k in range(10 if tier == "quick" else 100):
        rng = bases.rng_for("C07", seed, tier, "one-atom", k)
        lo, hi = [(0, 2), (1, 3), (0, 3), (0, 4), (2, 4), (1, 2), (1, 4), (0, 1), (2, 3), (0, 2)][k % 10]
        c0 = rng.normal(size=3) * [0.0, 1.0][k % 2]
        sh = [bases.rand_shell(rng, l, center=c0, emin=0.2, emax=5.0, Kmax=2, Mmax=2, t=t) for l, t in zip((lo, hi), [("c", "c"), ("p", "c"), ("c", "p"), ("c", "c")][k % 4])]
        for s_ in sh:
            s_.pop("_cls")
        orders = [[0, 0, 0], [1, 0, 0], [0, 1, 1], [0, 0, 2], [1, 1, 1]] + [list(ALL[int(rng.integers(len(ALL)))])]
        cases.append({"shells": sh if k % 3 else sh[::-1], "orders": orders, "origin": [float(v) for v in c0], "transform": None, "shift": False,
                      "classes": ["one-atom+origin-on-it", "l:%d+%d" % (lo, hi), "types:" + sh[0]["t"] + sh[1]["t"], "T:none", "ntriples:6"] + ["o:%d%d%d" % tuple(o) for o in orders], "cost": 60})
    # a diffuse low-l shell and a tight high-l shell about one bohr apart (exponent ratio 1e3..1e6), in both list orders: two-centre
    # recursions that run through the tight centre lose digits to cancellation there
    for k in range(12 if tier == "quick" else 96):
        rng = bases.rng_for("C07", seed, tier, "tight-vs-diffuse", k)
        ld, lt = int(rng.integers(0, 3)), int(rng.integers(3, 5))
        c0 = rng.normal(size=3)
        u = rng.normal(size=3)
        u /= np.linalg.norm(u)
        dif = bases.rand_shell(rng, ld, center=c0, emin=0.02, emax=0.5, Kmax=2, Mmax=2)
        tig = bases.rand_shell(rng, lt, center=c0 + u * float(rng.uniform(0.5, 1.5)), emin=bases.cap(lt) * [0.3, 30.0, 1000.0][k % 3], emax=bases.cap(lt) * [1.0, 300.0, 10000.0][k % 3], Kmax=2, Mmax=2)
        for s_ in (dif, tig):
            s_.pop("_cls")
        shells = [dif, tig] if k % 2 == 0 else [tig, dif]
        orders = [list(ALL[int(rng.integers(len(ALL)))]) for _ in range(2)] + [[0, 0, 0], [1, 1, 0]]
        cases.append({"shells": shells, "orders": orders, "origin": [float(v) for v in c0 + rng.normal(size=3) * [0.0, 1.0][k % 2]], "transform": None, "shift": False,
                      "classes": ["tight-high-l-vs-diffuse", "tight:" + ["within-range", "x30-300", "x1e3-1e4"][k % 3], "order:" + ("tight-second" if k % 2 == 0 else "tight-first"), "T:none", "ntriples:4"] + ["o:%d%d%d" % tuple(o) for o in orders], "cost": 60})
    cases += bases.dup_variants("C07", seed, tier, cases, 7, ok=lambda c: c.get("transform") is None)  # one shell listed twice as the same object
    cases += bases.argrep_variants("C07", seed, tier, cases, 6, ok=lambda c: "shells" in c and c.get("kind") in (None, "whole", "kernel", "perm", "real"))  # constructor arguments in other in-memory representations
    return cases


def run_case(case):
    from gbasis.integrals.moment import moment_integral
    from gbasis.integrals.overlap import overlap_integral

    shells = case["shells"]
    orders = [tuple(o) for o in case["orders"]]
    origin = np.array(case["origin"], dtype=float)
    T = None if case["transform"] is None else np.array(case["transform"], dtype=float)
    viols, errs = [], {}
    evals = 0
    rs = cm.rshells(shells)
    rkind = cm.REPS[(len(orders) + sum(len(s_["e"]) for s_ in shells)) % len(cm.REPS)]  # representation / dtype of the transform
    if T is not None:
        T = cm.rep_values(T, rkind, scale=2.0)
    dbl = [tuple(2 * x for x in o) for o in orders]
    ref_all = gto.moments(rs, origin, orders + dbl)
    D = len(orders)
    floor = 0.0
    if T is not None:
        # a transformed orbital may vanish identically (linearly dependent columns combined with integer coefficients):
        # its Cauchy-Schwarz scale is then 0 and only rounding noise of the terms is left, so the scale never drops below
        # 1e-4 of the same scale carried through |T| (FA19)
        n0 = np.abs(np.einsum("iid->id", ref_all[:, :, D:]))
        s0 = np.sqrt(np.sqrt(n0[:, None, :] * n0[None, :, :]))
        floor = 1e-4 * np.einsum("ia,jb,abd->ijd", np.abs(T), np.abs(T), s0)
        ref_all = np.einsum("ia,jb,abd->ijd", T, T, ref_all)
    ref = ref_all[:, :, :D]
    norm2 = np.abs(np.einsum("iid->id", ref_all[:, :, D:]))
    scale = np.maximum(np.sqrt(np.sqrt(norm2[:, None, :] * norm2[None, :, :])), floor)
    kw = {} if T is None else {"transform": cm.rep_typed(T, rkind)}
    M = cm.call(moment_integral, cm.build(shells), origin.copy(), np.array(orders, dtype=int), **kw)
    cm.compare(M, ref, TOL, "moment_integral", "moment", viols, errs, scale=scale + 1e-300, ls=cm.ls_of(shells), orders=[list(o) for o in orders])
    evals += 1
    good = isinstance(M, np.ndarray) and M.shape == ref.shape
    # (0,0,0) reproduces the observed overlap
    if good and (0, 0, 0) in orders:
        S = cm.call(overlap_integral, cm.build(shells), **kw)
        if isinstance(S, np.ndarray) and S.shape == M.shape[:2]:
            e = float(np.abs(M[:, :, orders.index((0, 0, 0))] - S).max())
            errs["zeroth_vs_overlap"] = e
            evals += 1
            if not e <= 1e-10:
                viols.append(cm.viol("order (0,0,0) differs from the observed overlap by %.3e" % e, "zeroth_vs_overlap", e, 1e-10))
    # binomial shift law on observed arrays
    if good and case.get("shift"):
        o = max(orders, key=sum)
        if max(o) <= 4:
            d = np.array([0.7, -0.4, 1.1])
            lower = list(itertools.product(*[range(x + 1) for x in o]))
            low = cm.call(moment_integral, cm.build(shells), origin.copy(), np.array(lower, dtype=int), **kw)
            new = cm.call(moment_integral, cm.build(shells), origin + d, np.array([o], dtype=int), **kw)
            if isinstance(low, np.ndarray) and isinstance(new, np.ndarray) and low.shape[2] == len(lower):
                acc = np.zeros(new.shape[:2])
                mag = np.zeros(new.shape[:2])
                for n_, kk in enumerate(lower):
                    c = 1.0
                    for ax in range(3):
                        c *= math.comb(o[ax], kk[ax]) * (-d[ax]) ** (o[ax] - kk[ax])
                    acc += c * low[:, :, n_]
                    mag += abs(c) * np.abs(low[:, :, n_])
                if T is not None:
                    # a transformed orbital may vanish identically (FA19): then every term of the relation is rounding noise of the
                    # untransformed terms, which set the floor of the yardstick
                    low0 = cm.call(moment_integral, cm.build(shells), origin.copy(), np.array(lower, dtype=int))
                    if isinstance(low0, np.ndarray) and low0.shape[2] == len(lower):
                        mag0 = np.zeros(low0.shape[:2])
                        for n_, kk in enumerate(lower):
                            c = 1.0
                            for ax in range(3):
                                c *= math.comb(o[ax], kk[ax]) * (-d[ax]) ** (o[ax] - kk[ax])
                            mag0 += abs(c) * np.abs(low0[:, :, n_])
                        mag = mag + 1e-4 * (np.abs(T) @ mag0 @ np.abs(T).T)
                e, at = cm.maxerr(new[:, :, 0], acc, mag + 1e-4 * mag.max() + 1e-300)
                errs["binomial_shift"] = e
                evals += 1
                if not e <= 1e-9:
                    viols.append(cm.viol("moment about a shifted origin differs from the binomial combination of lower moments by %.3e" % e,
                                         "binomial_shift", e, 1e-9, order=list(o)))
            else:
                for x, w in ((low, "moment_integral(lower orders)"), (new, "moment_integral(shifted origin)")):
                    if isinstance(x, cm.Raised):
                        viols.append(cm.unexpected(x, w))
    nontrivial = any(sum(o) >= 1 for o in orders) and any(s["l"] >= 1 for s in shells)
    return {"evals": evals, "nontrivial": bool(nontrivial), "classes": case.get("classes", []) + ["rep:" + rkind], "errs": errs, "violations": viols}


def summarize(cases, results, counts, lists, tier):
    tr = {x for c in cases for x in c.get("classes", []) if x.startswith("o:")}
    return {"enumerated": {"order triples 0..4^3": "%d of 125" % len(tr)}, "bound": "1e-8 * sqrt(||m phi_a|| ||m phi_b||)"}


def inconclusive(results, counts, tier):
    return []
