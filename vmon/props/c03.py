"""C03 point-charge / nuclear-attraction integrals exact; nuclear matrix = sum over charges."""
import itertools

import numpy as np

from vmon.gen import bases
from vmon.props import common as cm
from vmon.ref import gto

ID = "C03"
OWNS = ("C03",)
TOL = 1e-8
RULE = (
    "bases of 1-4 shells whose first two shells enumerate every ordered (l_a,l_b) in 0..5 x 0..5 (L_a>=L_b and "
    "L_a<L_b: swap/un-swap path); 1-4 primitives, 1-3 segments, exponents in [0.02, cap(l)] with edge classes; 1-5 "
    "charges of either sign, |q| in [0.1,100], placed on a centre / between centres / on a coordinate plane through a "
    "centre / 20-100 bohr away / generic; point_charge_integral compared per charge with the McMurchie-Davidson "
    "reference (Boys top order from mpmath) within 1e-8*sqrt(|V_aa V_bb|); nuclear_electron_attraction_integral "
    "compared with the sum over charges of the separately observed arrays and with the reference. non-trivial = "
    "at least one shell pair with L_a<L_b or L_a>L_b in the basis and a charge within 1 bohr of a centre."
)
FLOOR = {"quick": 25, "thorough": 100}
DECIDING = ["eval:point_charge_integral", "eval:nuclear_electron_attraction_integral", "kernel:PointChargeIntegral", "boys"]
REQUIRED_LINES = [
    ("gbasis/integrals/point_charge.py", "ab_swapped = True"),
    ("gbasis/integrals/point_charge.py", "if ab_swapped:"),
]
ASSUMPTIONS = ["reference model vmon/ref/gto.py (McMurchie-Davidson, mpmath Boys) after self-test (HORTON nuclear attraction reproduced to 3e-14)"]


def gen_charges(rng, shells):
    n = int(rng.integers(1, 6))
    cs = [np.array(s["c"]) for s in shells]
    pts, classes = [], set()
    for i in range(n):
        kind = str(rng.choice(["center", "between", "plane", "far", "generic", "near-center"]))
        c = cs[int(rng.integers(len(cs)))]
        if kind == "center":
            p = c.copy()
        elif kind == "between":
            p = 0.5 * (c + cs[int(rng.integers(len(cs)))]) + (0 if rng.random() < 0.5 else 1e-3 * rng.normal(size=3))
        elif kind == "plane":
            p = c + rng.normal(size=3)
            p[int(rng.integers(3))] = c[int(rng.integers(3))]
        elif kind == "far":
            d = rng.normal(size=3)
            p = c + d / np.linalg.norm(d) * rng.uniform(20, 100)
        elif kind == "near-center":
            p = c + rng.normal(size=3) * 10.0 ** rng.uniform(-8, -1)
        else:
            p = c + rng.normal(size=3) * 1.5
        classes.add("q:" + kind)
        pts.append([float(v) for v in p])
    if n >= 2 and rng.random() < 0.2:
        # two charges of different value on bit-identical coordinates (a core charge and its shell particle, a nucleus
        # and a point charge of an embedding on the same site)
        j, k = (int(x) for x in rng.permutation(n)[:2])
        pts[k] = list(pts[j])
        classes.add("q:same-site")
    q = np.exp(rng.uniform(np.log(0.1), np.log(100), size=n)) * rng.choice([-1.0, 1.0], size=n)
    if rng.random() < 0.25:
        q = np.sign(q) * np.maximum(1.0, np.rint(np.abs(q)))  # atomic numbers / formal charges
        classes.add("q:integer-valued")
    return pts, [float(v) for v in q], sorted(classes)


def gen_cases(tier, seed):
    reps = 5 if tier == "quick" else 180
    cases = []
    for rep in range(reps):
        for (la, lb) in itertools.product(range(6), repeat=2):
            rng = bases.rng_for("C03", seed, tier, rep, la, lb)
            nsh = 2 if (la + lb >= 8) else int(rng.choice([2, 2, 3, 4]))
            if rep % 4 == 3 and la == lb:
                nsh = 1
            ls = [la, lb][:nsh] + [int(rng.integers(0, 3)) for _ in range(max(0, nsh - 2))]
            shells, classes = bases.rand_basis(rng, ls, scale=1.2, Kmax=4 if la + lb < 8 else 3)
            if rep % 3 == 1 and nsh == 2:
                shells, classes = bases.window_pair(rng, la, lb)
            pts, q, qc = gen_charges(rng, shells)
            cases.append({"shells": shells, "points": pts, "charges": q,
                          "classes": classes + qc + ["l:%d,%d" % (la, lb), "nsh:%d" % nsh, "nq:%d" % len(q)],
                          "cost": len(q) ** 0.5 * sum((2 + a + b) ** 3 * len(x["e"]) * len(y["e"]) for x, a in zip(shells, ls) for y, b in zip(shells, ls))})
    # displaced copies: nearly coincident centres, also far from the origin
    for (la, lb) in itertools.product(range(4), repeat=2):
        for rep in range(2 if tier == "quick" else 8):
            rng = bases.rng_for("C03", seed, tier, "displaced", la, lb, rep)
            shells, classes = bases.displaced_pair(rng, la, lb)
            c0 = np.array(shells[0]["c"])
            pts = [[float(v) for v in c0 + rng.normal(size=3) * 0.7], [float(v) for v in c0], [float(v) for v in c0 + rng.normal(size=3) * 3.0]]
            cases.append({"shells": shells, "points": pts, "charges": [1.0, -2.0, 0.7], "classes": classes + ["q:generic", "q:center", "l:%d,%d" % (la, lb), "nsh:2", "nq:3"], "cost": 40})
    # screening-window sweep: high-l pairs at separations where exp(-mu R^2) runs through 1e-9 .. 1e-17
    for (la, lb) in itertools.product((4, 5) if tier == "quick" else (3, 4, 5), repeat=2):
        for t in range(20, 40, 2):
            rng = bases.rng_for("C03", seed, tier, "window", la, lb, t)
            shells, classes = bases.window_pair(rng, la, lb, tmin=t, tmax=t + 2)
            mid = 0.5 * (np.array(shells[0]["c"]) + np.array(shells[1]["c"]))
            pts = [[float(v) for v in mid], [float(v) for v in mid + rng.normal(size=3)]]
            cases.append({"shells": shells, "points": pts, "charges": [1.0, -2.5], "classes": classes + ["q:between", "l:%d,%d" % (la, lb), "nsh:2", "nq:2", "window-sweep"], "cost": 60})
    # Boys-window sweep: high total angular momentum with the charge at a distance where the Boys argument
    # p |P-C|^2 of the dominant primitive pair runs through 12 .. 48 (where asymptotic/series switches of a Boys
    # implementation live; the relative weight of the neglected tail grows with the order)
    for (la, lb) in ((5, 5), (4, 5), (5, 3), (3, 4)) if tier == "quick" else itertools.product((2, 3, 4, 5), repeat=2):
        for T in range(12, 50, 4 if tier == "quick" else 2):
            rng = bases.rng_for("C03", seed, tier, "boys", la, lb, T)
            a, b = float(rng.uniform(0.5, 4.0)), float(rng.uniform(0.5, 4.0))
            A = rng.normal(size=3)
            B = A + rng.normal(size=3) * 0.4
            shells = [{"l": la, "c": [float(v) for v in A], "e": [a], "k": [[1.0]], "t": str(rng.choice(["c", "p"]))},
                      {"l": lb, "c": [float(v) for v in B], "e": [b], "k": [[1.0]], "t": str(rng.choice(["c", "p"]))}]
            P = (a * A + b * B) / (a + b)
            pts = []
            for tt in (T, T + 1.3, T + 2.6):
                u = rng.normal(size=3)
                u /= np.linalg.norm(u)
                pts.append([float(v) for v in P + u * np.sqrt(tt / (a + b))])
            cases.append({"shells": shells, "points": pts, "charges": [1.0, -1.5, 2.0],
                          "classes": ["boys-window", "boysT:%d" % T, "l:%d,%d" % (la, lb), "nsh:2", "nq:3", "q:generic"], "cost": 80})
    # many charges in one call (a grid of charges / a large cluster): the array for charge n must not depend on how
    # many charges share the call; generalized contractions, spherical and mixed types
    for i, N in enumerate((300, 1100, 2600) if tier == "quick" else (300, 520, 1100, 2600, 4200, 8000, 12000)):
        rng = bases.rng_for("C03", seed, tier, "many", N)
        ls = [[1, 2], [2, 0, 1], [1, 2]][i % 3]
        tp = [["p", "p"], ["p", "c", "p"], ["c", "p"]][i % 3]
        shells, classes = bases.rand_basis(rng, ls, types=tp, scale=1.0, emax_fn=lambda l: 20.0, Kmax=3, Mmax=2, distinct_M=False)
        for s_ in shells:
            if len(s_["e"]) < 2:
                s_["e"] = [s_["e"][0], s_["e"][0] * 3.7]
                s_["k"] = [list(s_["k"][0]), [0.3 + 0.1 * j for j in range(len(s_["k"][0]))]]
            if len(s_["k"][0]) < 2 and s_["l"] >= 1:
                s_["k"] = [[row[0], 0.4 - 0.9 * j] for j, row in enumerate(s_["k"])]
        pts = rng.normal(size=(N, 3)) * 2.5
        q = rng.normal(size=N)
        cases.append({"kind": "many", "shells": shells, "points": [[float(v) for v in p_] for p_ in pts], "charges": [float(v) for v in q],
                      "classes": classes + ["many-charges", "nq:%d" % N, "nsh:%d" % len(ls)], "cost": 4000 + 3 * N})
    cases += bases.dup_variants("C03", seed, tier, [c for c in cases if c.get("kind") != "many"], 11)  # one shell listed twice as the same object
    cases += bases.argrep_variants("C03", seed, tier, cases, 9, ok=lambda c: "shells" in c and c.get("kind") in (None, "whole", "kernel", "perm", "real"))  # constructor arguments in other in-memory representations
    return cases


def run_case(case):
    from gbasis.integrals.nuclear_electron_attraction import nuclear_electron_attraction_integral
    from gbasis.integrals.point_charge import point_charge_integral

    shells = case["shells"]
    pts = np.array(case["points"], dtype=float)
    q = np.array(case["charges"], dtype=float)
    viols, errs = [], {}
    rs = cm.rshells(shells)
    nk = len(pts) + sum(len(s_["e"]) for s_ in shells)
    rkind = cm.REPS[nk % 11 % 6]  # representation / dtype of the array arguments; float32 is outside the documented domain (dtype int/float)
    if rkind == "int" and np.abs(pts).max() > 1e6:
        rkind = "c"
    if case.get("kind") == "many":
        return run_many(case, shells, pts, q, rs)
    pts = cm.rep_values(pts, rkind)  # integer-valued / float32-representable coordinates; charges stay fractional
    ref = gto.point_charge(rs, pts, q)  # (n, n, N)
    dg = np.abs(np.einsum("iin->in", ref))
    scale = np.sqrt(dg[:, None, :] * dg[None, :, :])
    qk = rkind if rkind not in ("int", "f32") else "c"
    qint = bool(np.array_equal(q, np.rint(q)) and nk % 2 == 0 and rkind != "int")  # integer-valued charges as an integer array (with float coordinates)
    V = cm.call(point_charge_integral, cm.build(shells), cm.rep_typed(pts, rkind), np.array(q, dtype=int) if qint else cm.rep(q, qk))
    cm.compare(V, ref, TOL, "point_charge_integral", "point_charge", viols, errs, scale=scale, ls=cm.ls_of(shells))
    evals = 1
    N = cm.call(nuclear_electron_attraction_integral, cm.build(shells), cm.rep_typed(pts, rkind), np.array(q, dtype=int) if qint else cm.rep(q, qk))
    nref = ref.sum(axis=2)
    nscale = np.abs(ref).sum(axis=2)
    # the property's yardstick for the matrix: sum over charges of the per-charge scales
    cm.compare(N, nref, TOL, "nuclear_electron_attraction_integral", "nuclear", viols, errs, scale=scale.sum(axis=2), ls=cm.ls_of(shells))
    evals += 1
    if isinstance(V, np.ndarray) and isinstance(N, np.ndarray) and V.shape == ref.shape and N.shape == nref.shape:
        e, at = cm.maxerr(N, V.sum(axis=2), np.abs(V).sum(axis=2) + 1e-300)
        errs["nuclear_vs_sum"] = e
        evals += 1
        if not e <= 1e-12:
            viols.append(cm.viol("nuclear attraction matrix differs from the sum of the per-charge arrays by %.3e (relative to sum |terms|)" % e,
                                 "nuclear_vs_sum", e, 1e-12))
    # the arrays belong to the caller: after the caller has overwritten the first result, the same request must again be answered
    # with the exact integrals; and a result the caller keeps must not change when the function is called again
    if nk % 3 == 0 and isinstance(V, np.ndarray) and V.shape == ref.shape and isinstance(N, np.ndarray) and N.shape == nref.shape:
        if V.flags.writeable:
            V *= 0.25
        V2 = cm.call(point_charge_integral, cm.build(shells), cm.rep_typed(pts, rkind), np.array(q, dtype=int) if qint else cm.rep(q, qk))
        cm.compare(V2, ref, TOL, "point_charge_integral (same request again, after the caller overwrote the first result)", "point_charge_again", viols, errs, scale=scale, ls=cm.ls_of(shells))
        N0 = N.copy()
        N2 = cm.call(nuclear_electron_attraction_integral, cm.build(shells), cm.rep_typed(pts, rkind), -0.5 * q)
        cm.compare(N2, -0.5 * nref, TOL, "nuclear_electron_attraction_integral (second call, other charges)", "nuclear_again", viols, errs, scale=0.5 * scale.sum(axis=2))
        evals += 2
        if not np.array_equal(N, N0):
            viols.append(cm.viol("the nuclear-attraction matrix returned by the first call changed when the function was called again", "nuclear_retained"))
    ls = cm.ls_of(shells)
    near = any(np.linalg.norm(pts - np.array(s["c"]), axis=1).min() < 1.0 for s in shells)
    nontrivial = near and (len(set(ls)) > 1 or len(ls) == 1)
    return {"evals": evals, "nontrivial": bool(nontrivial), "classes": case.get("classes", []) + ["rep:" + rkind] + (["q:int-array"] if qint else []), "errs": errs, "violations": viols}


def run_many(case, shells, pts, q, rs):
    """many charges in one call: (1) the reference on a subset of the charges (first, last, around 256/1000/4096 and
    150 random ones); (2) trace relation: the same charges handed over in slices of 97 must give the same arrays."""
    from gbasis.integrals.nuclear_electron_attraction import nuclear_electron_attraction_integral
    from gbasis.integrals.point_charge import point_charge_integral

    viols, errs = [], {}
    N = len(q)
    rng = np.random.default_rng(N)
    idx = sorted(set(list(range(8)) + list(range(N - 8, N)) + [k for c in (256, 1000, 1024, 4096) for k in range(c - 3, c + 3) if k < N] + [int(v) for v in rng.integers(0, N, size=150)]))
    ref = gto.point_charge(rs, pts[idx], q[idx])
    dg = np.abs(np.einsum("iin->in", ref))
    scale = np.sqrt(dg[:, None, :] * dg[None, :, :])
    V = cm.call(point_charge_integral, cm.build(shells), pts.copy(), q.copy())
    evals = 1
    if isinstance(V, cm.Raised) or not isinstance(V, np.ndarray) or V.shape != (ref.shape[0], ref.shape[1], N):
        viols.append(cm.unexpected(V, "point_charge_integral(%d charges)" % N) if isinstance(V, cm.Raised) else cm.shape_violation(V, (ref.shape[0], ref.shape[1], N), "point_charge_integral(%d charges)" % N))
        return {"evals": evals, "nontrivial": True, "classes": case["classes"], "errs": errs, "violations": viols}
    cm.compare(V[:, :, idx], ref, TOL, "point_charge_integral(%d charges), sampled charges" % N, "point_charge", viols, errs, scale=scale, ls=cm.ls_of(shells))
    parts = []
    for k in range(0, N, 97):
        o = cm.call(point_charge_integral, cm.build(shells), pts[k:k + 97].copy(), q[k:k + 97].copy())
        evals += 1
        if isinstance(o, cm.Raised):
            viols.append(cm.unexpected(o, "point_charge_integral(slice of 97 charges)"))
            return {"evals": evals, "nontrivial": True, "classes": case["classes"], "errs": errs, "violations": viols}
        parts.append(o)
    W = np.concatenate(parts, axis=2)
    dgl = np.abs(np.einsum("iin->in", W))
    sl = np.sqrt(dgl[:, None, :] * dgl[None, :, :]) + 1e-300
    e, at = cm.maxerr(V, W, sl)
    errs["many_vs_slices"] = e
    evals += 1
    if not e <= 1e-11:
        viols.append(cm.viol("point_charge_integral with %d charges in one call differs from the same charges handed over in slices of 97 by %.3e of the scale at %s" % (N, e, at),
                             "many_vs_slices", e, 1e-11))
    Nu = cm.call(nuclear_electron_attraction_integral, cm.build(shells), pts.copy(), q.copy())
    evals += 1
    if isinstance(Nu, cm.Raised):
        viols.append(cm.unexpected(Nu, "nuclear_electron_attraction_integral(%d nuclei)" % N))
    else:
        e, at = cm.maxerr(Nu, W.sum(axis=2), np.abs(W).sum(axis=2) + 1e-300)
        errs["nuclear_vs_sum"] = e
        if not e <= 1e-11:
            viols.append(cm.viol("nuclear attraction matrix of %d nuclei differs from the sum of the per-charge arrays (slices) by %.3e (relative to sum |terms|)" % (N, e), "nuclear_vs_sum", e, 1e-11))
    return {"evals": evals, "nontrivial": True, "classes": case["classes"] + ["rep:c"], "errs": errs, "violations": viols}


def summarize(cases, results, counts, lists, tier):
    pairs = {x for c in cases for x in c.get("classes", []) if x.startswith("l:")}
    b = lists.get("boys", [])
    out = {"enumerated": {"ordered (l_a,l_b) pairs 0..5": "%d of 36" % len(pairs)}, "bound": "1e-8 * sqrt(|V_aa V_bb|) per charge"}
    if b:
        out["boys_observed"] = {"max_order": max(x[0] for x in b), "min_argument": min(x[1] for x in b),
                                "max_argument": max(x[2] for x in b), "calls": sum(x[3] for x in b)}
    return out


def inconclusive(results, counts, tier):
    return []
