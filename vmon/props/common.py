"""Helpers shared by the property drivers."""
import traceback

import numpy as np

from vmon.gen import bases


class Raised:
    """Outcome of a monitored gbasis call that raised."""

    def __init__(self, exc):
        self.exc = exc
        self.type = type(exc).__name__
        self.msg = str(exc)[:300]
        self.tb = traceback.format_exc()[-1200:]

    def __repr__(self):
        return "Raised(%s: %s)" % (self.type, self.msg)


# ---------------------------------------------------------------------------------------------- call styles
# The same call written in another legitimate way: optional parameters given explicitly with their documented default
# values, everything passed positionally, the basis handed over as a tuple instead of a list (or vice versa). The
# result must not depend on it, so no oracle changes; the style is a function of the case id (replays reproduce it).
STYLES = ["as-is", "as-is", "explicit-defaults", "positional", "basis-swap-container", "twice-scribble"]
STYLE = {"name": "as-is", "counts": {}}


def set_style(cid):
    import hashlib

    STYLE["name"] = STYLES[int(hashlib.sha1(str(cid).encode()).hexdigest(), 16) % len(STYLES)]
    return STYLE["name"]


def _is_shell_seq(x):
    return isinstance(x, (list, tuple)) and len(x) > 0 and all(hasattr(s_, "angmom") and hasattr(s_, "exps") for s_ in x)


def restyle(fn, a, k):
    import inspect

    st = STYLE["name"]
    if st == "as-is":
        return a, k
    mod = getattr(fn, "__module__", "") or ""
    if not mod.startswith(("gbasis.integrals", "gbasis.evals")):
        return a, k
    try:
        if not inspect.isfunction(inspect.unwrap(fn)):
            return a, k
        sig = inspect.signature(fn)
        if any(p_.kind is not inspect.Parameter.POSITIONAL_OR_KEYWORD for p_ in sig.parameters.values()):
            return a, k
        ba = sig.bind(*a, **k)
    except (TypeError, ValueError):
        return a, k  # a deliberately malformed call is left exactly as written
    STYLE["counts"][st] = STYLE["counts"].get(st, 0) + 1
    if st == "basis-swap-container":
        a = tuple((tuple(x) if isinstance(x, list) else list(x)) if _is_shell_seq(x) else x for x in a)
        k = {kk: ((tuple(x) if isinstance(x, list) else list(x)) if _is_shell_seq(x) else x) for kk, x in k.items()}
        return a, k
    npos = len(a)
    ba.apply_defaults()
    names = list(ba.arguments)
    if st == "positional":
        return tuple(ba.arguments[n_] for n_ in names), {}
    return tuple(ba.arguments[n_] for n_ in names[:npos]), {n_: ba.arguments[n_] for n_ in names[npos:]}


def call(fn, *a, **k):
    """Call gbasis; exceptions become values so that the driver judges them (never a harness error)."""
    try:
        if STYLE["name"] == "twice-scribble" and (getattr(fn, "__module__", "") or "").startswith(("gbasis.integrals", "gbasis.evals")):
            # the request is made twice; the array returned first is overwritten by the caller before the second call (it
            # belongs to the caller), and the driver judges what the second call returns
            try:
                first = fn(*a, **k)
                if isinstance(first, np.ndarray) and first.flags.writeable and first.size and first.dtype.kind in "fc":
                    first *= 0.25
                    first += 3.0
                STYLE["counts"]["twice-scribble"] = STYLE["counts"].get("twice-scribble", 0) + 1
            except Exception:  # noqa: BLE001
                pass
        else:
            a, k = restyle(fn, a, k)
        return fn(*a, **k)
    except Exception as exc:  # noqa: BLE001
        return Raised(exc)


def unexpected(out, what, **kw):
    """violation record for a call that raised where the property promises a value"""
    v = {"what": "%s raised %s: %s" % (what, out.type, out.msg), "qty": "exception:" + what, "exc_type": out.type}
    v.update(kw)
    return v


def maxerr(a, b, scale=None):
    a = np.asarray(a)
    b = np.asarray(b)
    if a.shape != b.shape:
        return np.inf, None
    d = np.abs(a - b)
    if scale is not None:
        with np.errstate(divide="ignore", invalid="ignore"):
            d = np.where(scale > 0, d / scale, np.where(d == 0, 0.0, np.inf))
    if d.size == 0:
        return 0.0, None
    d = np.where(np.isnan(d), np.inf, d)
    i = np.unravel_index(int(np.argmax(d)), d.shape)
    return float(d[i]), tuple(int(x) for x in i)


def block_of(offs, idx):
    """index of the shell a function index belongs to"""
    return int(np.searchsorted(offs, idx, side="right") - 1)


def shape_violation(arr, shape, what):
    if not isinstance(arr, np.ndarray):
        return {"what": "%s returned %s, not an ndarray" % (what, type(arr).__name__), "qty": "shape:" + what}
    if tuple(arr.shape) != tuple(shape):
        return {"what": "%s returned shape %s, documented %s" % (what, arr.shape, tuple(shape)), "qty": "shape:" + what}
    return None


def viol(what, qty, err=None, tol=None, **kw):
    v = {"what": what, "qty": qty}
    if err is not None:
        v["err"] = float(err)
    if tol is not None:
        v["tol"] = float(tol)
    v.update(kw)
    return v


def compare(out, ref, tol, what, qty, viols, errs, scale=None, errkey=None, **kw):
    """Judge a returned array against a reference; exceptions/shape mismatches are violations."""
    if isinstance(out, Raised):
        viols.append(unexpected(out, what, **kw))
        return None
    ref = np.asarray(ref)
    sv = shape_violation(out, ref.shape, what)
    if sv:
        sv.update(kw)
        viols.append(sv)
        return None
    e, at = maxerr(out, ref, scale)
    k = errkey or qty
    errs[k] = max(errs.get(k, 0.0), e)
    if not (e <= tol):
        viols.append(viol("%s deviates from the reference by %.3e (bound %.1e) at %s" % (what, e, tol, at),
                          qty, e, tol, at=list(at) if at else None, **kw))
    return e


def ls_of(shells):
    return [s["l"] for s in shells]


build = bases.build
rshells = bases.rshells


def rep(arr, kind):
    """The same numbers in another in-memory representation (a caller may hand over any of these):
    'c' C-contiguous copy, 'f' Fortran order, 'strided' a non-contiguous view of a larger array,
    'readonly' a write-protected array, 'neg' negative strides (reversed twice)."""
    a = np.array(arr, dtype=float)
    if kind == "f":
        return np.asfortranarray(a)
    if kind == "strided":
        big = np.zeros(tuple(2 * n for n in a.shape), dtype=float)
        big[tuple(slice(None, None, 2) for _ in a.shape)] = a
        return big[tuple(slice(None, None, 2) for _ in a.shape)]
    if kind == "readonly":
        a.flags.writeable = False
        return a
    if kind == "neg":
        return a[::-1][::-1] if a.ndim == 1 else np.ascontiguousarray(a[::-1])[::-1]
    return a


REPS = ["c", "f", "strided", "readonly", "neg", "int", "f32"]


def rep_values(arr, kind, scale=1.0):
    """'int' and 'f32' change the VALUES (integer-valued / float32-representable numbers): returns the float64 array of the
    values actually handed over, to be used by the oracle as well. Other kinds return the array unchanged."""
    a = np.array(arr, dtype=float)
    if kind == "int":
        return np.rint(a * scale)
    if kind == "f32":
        return a.astype(np.float32).astype(float)
    return a


def rep_typed(vals, kind):
    """the array object handed to gbasis for representation `kind` (values must come from rep_values)"""
    if kind == "int":
        return np.array(vals, dtype=np.int64)
    if kind == "f32":
        return np.array(vals, dtype=np.float32)
    return rep(vals, kind)
