"""Runner: cases -> shards -> subprocess workers -> aggregate -> three-valued verdict -> evidence.

exit 0  held on everything observed (KNOWN-FINDING lines allowed)
exit 1  VIOLATION property=<id> replay=<path>
exit 2  INCONCLUSIVE property=<id> reason=...   (never a VIOLATION line)
"""
import concurrent.futures as cf
import hashlib
import importlib
import json
import os
import subprocess
import sys
import time

from vmon import env

SHARD_TIMEOUT = {"quick": 1500, "thorough": 4 * 3600}


def jdump(o):
    return json.dumps(o, sort_keys=True, default=_jdefault)


def _jdefault(o):
    import numpy as np

    if isinstance(o, np.ndarray):
        return o.tolist()
    if isinstance(o, (np.integer,)):
        return int(o)
    if isinstance(o, (np.floating,)):
        return float(o)
    if isinstance(o, (np.bool_,)):
        return bool(o)
    if isinstance(o, complex):
        return [o.real, o.imag]
    if isinstance(o, (set, frozenset, tuple)):
        return list(o)
    return repr(o)


def case_digest(case):
    c = {k: v for k, v in case.items() if k not in ("cid", "cost")}
    return hashlib.sha1(jdump(c).encode()).hexdigest()[:16]


def load_prop(pid):
    return importlib.import_module("vmon.props." + pid.lower())


def load_known():
    path = os.path.join(env.VERIF, "known_findings.json")
    if not os.path.exists(path):
        return []
    with open(path) as fh:
        return json.load(fh).get("findings", [])


# --------------------------------------------------------------------------------- sharding
def make_shards(cases, nshards):
    order = sorted(range(len(cases)), key=lambda i: -float(cases[i].get("cost", 1.0)))
    loads = [0.0] * nshards
    shards = [[] for _ in range(nshards)]
    for i in order:
        k = loads.index(min(loads))
        shards[k].append(cases[i])
        loads[k] += float(cases[i].get("cost", 1.0))
    return [s for s in shards if s]


def run_shard(pid, tier, seed, idx, cases, tag):
    inp = os.path.join(env.WORK, "%s-%s-%d.in.json" % (tag, pid, idx))
    out = os.path.join(env.WORK, "%s-%s-%d.out.json" % (tag, pid, idx))
    with open(inp, "w") as fh:
        json.dump({"pid": pid, "tier": tier, "seed": seed, "cases": cases}, fh, default=_jdefault)
    if os.path.exists(out):
        os.remove(out)
    cmd = [env.PYTHON, "-m", "vmon.worker", inp, out]
    t0 = time.time()
    status = "ok"
    try:
        p = subprocess.run(cmd, cwd=env.VERIF, timeout=SHARD_TIMEOUT[tier], capture_output=True, text=True,
                           env={**os.environ, "PYTHONPATH": env.VERIF, "PYTHONHASHSEED": os.environ.get("PYTHONHASHSEED", "0")})
        if p.returncode != 0:
            status = "crash rc=%s: %s" % (p.returncode, (p.stderr or "")[-1500:])
    except subprocess.TimeoutExpired:
        status = "timeout after %ds" % SHARD_TIMEOUT[tier]
    res = None
    if os.path.exists(out):
        try:
            with open(out) as fh:
                res = json.load(fh)
        except Exception as exc:  # truncated file
            status = "unreadable worker output: %r" % exc
    for f in (inp, out):
        try:
            os.remove(f)
        except OSError:
            pass
    return {"idx": idx, "status": status, "res": res, "wall": time.time() - t0, "ncases": len(cases)}


# --------------------------------------------------------------------------------- main entry
def run_check(pid, tier="quick", seed=None, replay=None, keep=None):
    t0 = time.time()
    env.bootstrap()
    seed = env.SEED if seed is None else seed
    mod = load_prop(pid)
    os.makedirs(env.EVIDENCE, exist_ok=True)
    if env.REPO != "/repo":
        env.REPLAYS = os.path.join(env.WORK, "replays-other-tree")
    os.makedirs(env.REPLAYS, exist_ok=True)
    known = load_known()
    known_keys = {k["key"]: k for k in known if k.get("status") == "known" and k.get("property") == pid}

    if replay:
        with open(replay) as fh:
            rp = json.load(fh)
        cases = [rp["case"]]
    else:
        cases = mod.gen_cases(tier, seed)
        for i, c in enumerate(cases):
            c.setdefault("cid", "%s-%s-s%d-%05d" % (pid, tier, seed, i))
    if keep is not None:
        cases = [c for c in cases if keep in c["cid"]]

    nshards = max(1, min(len(cases), env.NPROC * (3 if tier == "thorough" else 2)))
    shards = make_shards(cases, nshards)
    tag = "%d-%d" % (os.getpid(), int(time.time()))
    outs = []
    with cf.ThreadPoolExecutor(max_workers=env.NPROC) as ex:
        futs = [ex.submit(run_shard, pid, tier, seed, i, sh, tag) for i, sh in enumerate(shards)]
        for f in futs:
            outs.append(f.result())

    results, counts, cov, problems, extra_lists = [], {}, set(), [], {}
    for o in outs:
        if o["status"] != "ok":
            problems.append("shard %d: %s" % (o["idx"], o["status"]))
        r = o["res"]
        if not r:
            if o["status"] == "ok":
                problems.append("shard %d wrote no output" % o["idx"])
            continue
        results.extend(r["results"])
        for k, v in r["counts"].items():
            counts[k] = counts.get(k, 0) + v
        cov.update(tuple(x) for x in r.get("cov", []))
        for k, v in r.get("lists", {}).items():
            extra_lists.setdefault(k, []).extend(v)
        if r.get("incomplete"):
            problems.append("shard %d stopped early: %s" % (o["idx"], r["incomplete"]))
    if len(results) != len(cases) and not problems:
        problems.append("only %d of %d cases produced a result" % (len(results), len(cases)))

    by_cid = {c["cid"]: c for c in cases}
    # ---- violations -> known findings / VIOLATION lines
    viol_lines, known_lines, nviol = [], {}, 0
    per_qty = {}
    for r in results:
        case = by_cid.get(r["cid"], {})
        unknown = []
        for v in r.get("violations", []):
            key = None
            if hasattr(mod, "classify"):
                try:
                    key = mod.classify(case, v)
                except Exception as exc:  # a broken classifier must not hide a violation
                    key = None
                    v["classifier_error"] = repr(exc)
            v["classified_as"] = key
            if key is not None and key in known_keys:
                known_lines.setdefault(key, []).append((r["cid"], v))
                continue
            nviol += 1
            unknown.append(v)
        if not unknown:
            continue
        q = unknown[0].get("qty")
        per_qty[q] = per_qty.get(q, 0) + 1
        if per_qty[q] > 3 or len(viol_lines) >= 12:
            continue
        path = os.path.join(env.REPLAYS, "%s-%s.json" % (pid, case_digest(case)))
        with open(path, "w") as fh:
            json.dump({"property": pid, "tier": tier, "seed": seed, "case": case, "violations": unknown,
                       "repo": env.REPO}, fh, indent=1, default=_jdefault)
        viol_lines.append("VIOLATION property=%s replay=%s  # %s%s" % (
            pid, path, unknown[0].get("what", "")[:200], " (+%d more in this case)" % (len(unknown) - 1) if len(unknown) > 1 else ""))

    # ---- inconclusive conditions
    incon = list(problems)
    nontrivial = {}
    for r in results:
        if r.get("nontrivial"):
            nontrivial[case_digest(by_cid.get(r["cid"], {"cid": r["cid"]}))] = 1
    evaluations = int(sum(r.get("evals", 0) for r in results))
    if not replay and keep is None:
        floor = getattr(mod, "FLOOR", {}).get(tier, 10)
        if len(nontrivial) < floor:
            incon.append("only %d distinct non-trivial cases (floor %d)" % (len(nontrivial), floor))
        for key in getattr(mod, "DECIDING", []):
            if counts.get(key, 0) == 0:
                incon.append("deciding monitor %s had zero evaluations" % key)
        req = required_lines(getattr(mod, "REQUIRED_LINES", []))
        for (rel, text, lines) in req:
            if lines and not any((rel, ln) in cov for ln in lines):
                incon.append("anchored line never executed: %s: %r" % (rel, text))
        if hasattr(mod, "inconclusive"):
            incon.extend(mod.inconclusive(results, counts, tier))

    # ---- evidence
    classes = {}
    errs = {}
    for r in results:
        for c in r.get("classes", []):
            classes[c] = classes.get(c, 0) + 1
        for k, v in r.get("errs", {}).items():
            if v is not None and (k not in errs or v > errs[k]):
                errs[k] = v
    samples = pick_samples(cases, results)
    coverage = {
        "evaluations": evaluations,
        "distinct_nontrivial": len(nontrivial),
        "rule": getattr(mod, "RULE", ""),
        "samples": samples,
        "cases": len(cases),
        "input_classes": dict(sorted(classes.items())),
        "max_error": {k: float(v) for k, v in sorted(errs.items())},
        "monitor_counts": dict(sorted(counts.items())),
        "anchor_lines": anchor_summary(getattr(mod, "REQUIRED_LINES", []), cov),
        "gbasis_lines_executed": len(cov),
        "known_findings_seen": {k: len(v) for k, v in known_lines.items()},
        "shards": len(shards),
        "inconclusive_reasons": incon,
        "exhaustive": bool(getattr(mod, "EXHAUSTIVE", False)) and not incon,
        "repo": env.REPO,
    }
    if hasattr(mod, "summarize"):
        try:
            coverage.update(mod.summarize(cases, results, counts, extra_lists, tier))
        except Exception as exc:
            coverage["summarize_error"] = repr(exc)
    ev = {
        "property_id": pid,
        "tier": tier if tier in ("quick", "thorough") else "quick",
        "seed": int(seed),
        "level": "exploration",
        "coverage": coverage,
        "assumptions": getattr(mod, "ASSUMPTIONS", []),
        "wall_s": round(time.time() - t0, 2),
        "violations": nviol,
    }
    if not replay and keep is None:
        evdir = env.EVIDENCE
        if env.REPO != "/repo" or os.environ.get("VERIF_EVIDENCE_DIR"):
            # audits against scratch copies must not overwrite the evidence of the tree under /repo
            evdir = os.environ.get("VERIF_EVIDENCE_DIR") or os.path.join(env.WORK, "evidence-other-tree")
            os.makedirs(evdir, exist_ok=True)
        with open(os.path.join(evdir, "%s.json" % pid), "w") as fh:
            json.dump(ev, fh, indent=1, default=_jdefault)

    # ---- report
    print("%s tier=%s seed=%d cases=%d evaluations=%d distinct_nontrivial=%d wall=%.1fs" % (
        pid, tier, seed, len(cases), evaluations, len(nontrivial), time.time() - t0))
    if errs:
        print("  max_error: " + ", ".join("%s=%.2e" % kv for kv in sorted(errs.items())))
    for key, lst in sorted(known_lines.items()):
        print("KNOWN-FINDING: property=%s %s (%d cases, e.g. %s)" % (pid, known_keys[key]["what"], len(lst), lst[0][0]))
    if viol_lines:
        for ln in viol_lines:
            print(ln)
        print("  (%d violating observations in total)" % nviol)
        return 1
    if incon:
        for r in incon:
            print("INCONCLUSIVE property=%s reason=%s" % (pid, r))
        return 2
    print("HELD property=%s on everything observed" % pid)
    return 0


def required_lines(reqs):
    out = []
    for rel, text in reqs:
        path = os.path.join(env.REPO, rel)
        lines = []
        try:
            with open(path) as fh:
                for n, ln in enumerate(fh, 1):
                    if text in ln:
                        lines.append(n)
        except OSError:
            pass
        out.append((rel, text, lines))
    return out


def anchor_summary(reqs, cov):
    out = {}
    for rel, text, lines in required_lines(reqs):
        out["%s: %s" % (rel, text.strip())] = bool(lines) and any((rel, ln) in cov for ln in lines) if lines else None
    return out


def pick_samples(cases, results, n=4):
    by = {r["cid"]: r for r in results}
    scored = []
    for c in cases:
        r = by.get(c["cid"])
        if not r:
            continue
        e = max([v for v in r.get("errs", {}).values() if v is not None] or [0.0])
        scored.append((e, c["cid"]))
    scored.sort(reverse=True)
    pick = [cid for _, cid in scored[:1]]
    step = max(1, len(cases) // n)
    for c in cases[::step]:
        if c["cid"] not in pick and len(pick) < n:
            pick.append(c["cid"])
    cmap = {c["cid"]: c for c in cases}
    out = []
    for cid in pick:
        r = by.get(cid, {})
        out.append({"case": cmap[cid], "observed": {k: r.get(k) for k in ("evals", "nontrivial", "classes", "errs") if k in r}})
    return out


def main(argv=None):
    import argparse

    ap = argparse.ArgumentParser(prog="check")
    ap.add_argument("pid")
    ap.add_argument("--tier", default=os.environ.get("VERIF_TIER", "quick"), choices=["quick", "thorough"])
    ap.add_argument("--seed", type=int, default=None)
    ap.add_argument("--replay", default=None)
    ap.add_argument("--only", default=None, help="substring of case ids to run (debugging; no evidence written)")
    a = ap.parse_args(argv)
    rc = run_check(a.pid.upper(), a.tier, a.seed, a.replay, a.only)
    sys.exit(rc)


if __name__ == "__main__":
    main()
