"""Coverage observer: which source lines of the repository under test were executed.

sys.monitoring (3.12) LINE events, callback returns DISABLE after the first hit of each location, so
the cost is one callback per distinct line.  Never a verdict: it only turns "the monitor saw nothing
relevant" into *inconclusive*.
"""
import os
import sys

from vmon import env

TOOL = 3
HITS = set()
_prefix = os.path.join(env.REPO, "gbasis") + os.sep
_on = False


def _line(code, lineno):
    fn = code.co_filename
    if fn.startswith(_prefix):
        HITS.add((os.path.relpath(fn, env.REPO), lineno))
    return sys.monitoring.DISABLE


def start():
    global _on
    if _on or not hasattr(sys, "monitoring"):
        return False
    try:
        sys.monitoring.use_tool_id(TOOL, "vmon-cov")
    except ValueError:
        return False
    sys.monitoring.register_callback(TOOL, sys.monitoring.events.LINE, _line)
    sys.monitoring.set_events(TOOL, sys.monitoring.events.LINE)
    _on = True
    return True


def stop():
    global _on
    if _on:
        sys.monitoring.set_events(TOOL, 0)
        sys.monitoring.free_tool_id(TOOL)
        _on = False
