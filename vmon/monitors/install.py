"""Install runtime monitors on the real gbasis functions (no repository edits).

Every public function named in the properties and every ``construct_array_contraction`` kernel is
decorated with ``icontract.snapshot`` + ``icontract.ensure`` (named conditions, explicit ``error=``),
and an outer guard observes the *raise* path, which neither icontract nor deal checks.  After
decorating, every reference that gbasis bound at import time (``from m import f``, class attributes
such as ``construct_array_contraction = staticmethod(Overlap.construct_array_contraction)``,
``boys_func = PointChargeIntegral.boys_func``) is rebound to the monitored object.

Conditions never raise into gbasis: they *record* into ``STATE`` and return True; drivers read
``STATE`` after each call.  Each monitor counts its evaluations; zero evaluations of a deciding
monitor makes the owning check inconclusive.
"""
import functools
import hashlib
import sys
import weakref

import numpy as np

from vmon import env

env.ensure_deps()
import icontract  # noqa: E402


class MonitorFired(Exception):
    """error= class of the contracts (conditions always return True, so it is never raised)."""


class State:
    def __init__(self):
        self.reset()

    def reset(self):
        self.counts = {}
        self.firings = []  # dicts: monitor, owner, function, detail
        self.calls = []  # trace of public calls (function name, arg digest, outcome)
        self.trace = False
        self.recent_results = []  # weakrefs of kernel results
        self.recent_public = []  # weakrefs of arrays returned by top-level public calls
        self.boys = []  # observed (order max, x min, x max)
        self.fp_events = {}
        self.depth = 0

    def count(self, key, n=1):
        self.counts[key] = self.counts.get(key, 0) + n

    def fire(self, monitor, owner, function, detail):
        self.count("fired:" + monitor)
        if len(self.firings) < 200:
            self.firings.append(
                {"monitor": monitor, "owner": owner, "function": function, "detail": detail}
            )

    def take_firings(self):
        out, self.firings = self.firings, []
        return out


STATE = State()

PUBLIC = [
    ("gbasis.integrals.overlap", "overlap_integral"),
    ("gbasis.integrals.overlap_asymm", "overlap_integral_asymmetric"),
    ("gbasis.integrals.kinetic_energy", "kinetic_energy_integral"),
    ("gbasis.integrals.point_charge", "point_charge_integral"),
    ("gbasis.integrals.nuclear_electron_attraction", "nuclear_electron_attraction_integral"),
    ("gbasis.integrals.electron_repulsion", "electron_repulsion_integral"),
    ("gbasis.integrals.moment", "moment_integral"),
    ("gbasis.integrals.momentum", "momentum_integral"),
    ("gbasis.integrals.angular_momentum", "angular_momentum_integral"),
    ("gbasis.evals.eval", "evaluate_basis"),
    ("gbasis.evals.eval_deriv", "evaluate_deriv_basis"),
    ("gbasis.evals.density", "evaluate_density_using_evaluated_orbs"),
    ("gbasis.evals.density", "evaluate_density"),
    ("gbasis.evals.density", "evaluate_deriv_reduced_density_matrix"),
    ("gbasis.evals.density", "evaluate_deriv_density"),
    ("gbasis.evals.density", "evaluate_density_gradient"),
    ("gbasis.evals.density", "evaluate_density_laplacian"),
    ("gbasis.evals.density", "evaluate_density_hessian"),
    ("gbasis.evals.density", "evaluate_posdef_kinetic_energy_density"),
    ("gbasis.evals.density", "evaluate_general_kinetic_energy_density"),
    ("gbasis.evals.electrostatic_potential", "electrostatic_potential"),
    ("gbasis.evals.stress_tensor", "evaluate_stress_tensor"),
    ("gbasis.evals.stress_tensor", "evaluate_ehrenfest_force"),
    ("gbasis.evals.stress_tensor", "evaluate_ehrenfest_hessian"),
    ("gbasis.parsers", "parse_nwchem"),
    ("gbasis.parsers", "parse_gbs"),
    ("gbasis.parsers", "make_contractions"),
    ("gbasis.wrappers", "from_pyscf"),
    ("gbasis.wrappers", "from_iodata"),
    ("gbasis.spherical", "generate_transformation"),
]

KERNEL_CLASSES = [
    ("gbasis.integrals.overlap", "Overlap"),
    ("gbasis.integrals.kinetic_energy", "KineticEnergyIntegral"),
    ("gbasis.integrals.point_charge", "PointChargeIntegral"),
    ("gbasis.integrals.electron_repulsion", "ElectronRepulsionIntegral"),
    ("gbasis.integrals.moment", "Moment"),
    ("gbasis.integrals.momentum", "MomentumIntegral"),
    ("gbasis.integrals.angular_momentum", "AngularMomentumIntegral"),
    ("gbasis.evals.eval", "Eval"),
    ("gbasis.evals.eval_deriv", "EvalDeriv"),
]

SYMMETRIC = {
    "overlap_integral", "kinetic_energy_integral", "point_charge_integral",
    "nuclear_electron_attraction_integral", "moment_integral",
}
HERMITIAN = {"momentum_integral", "angular_momentum_integral"}


# ------------------------------------------------------------------------------- digests
SHELL_PUBLIC = ("angmom", "coord", "coeffs", "exps", "coord_type", "icenter", "norm_cont")


def _is_shell(o):
    return all(hasattr(type(o), k) for k in ("angmom", "exps", "coeffs", "coord")) and hasattr(o, "norm_cont") and not isinstance(o, type)


def digest(o, _depth=0, rep=False):
    """Bitwise, structure-preserving digest of an argument object graph. ``rep=True`` (argument sentinels) includes the
    in-memory representation of every array (strides, write flag) next to its values, shape and dtype."""
    if isinstance(o, np.ndarray):
        h = hashlib.sha1()
        try:
            h.update(np.ascontiguousarray(o).tobytes())
        except Exception:  # object arrays
            h.update(repr(o.tolist()).encode())
        # values AND representation: an argument whose write flag, dtype, shape or strides changed was modified too
        if rep:
            return ("nd", o.shape, str(o.dtype), o.strides, bool(o.flags.writeable), h.hexdigest())
        return ("nd", o.shape, str(o.dtype), h.hexdigest())
    if isinstance(o, (list, tuple)):
        return (type(o).__name__, tuple(digest(x, _depth + 1, rep) for x in o))
    if isinstance(o, dict):
        return ("dict", tuple((repr(k), digest(v, _depth + 1, rep)) for k, v in sorted(o.items(), key=lambda kv: repr(kv[0]))))
    if _is_shell(o):
        # observable state of a shell = its public parameters (a correctly invalidated private memo is not a
        # modification of the shell; a stale one is caught by the fresh-rebuild oracle of C19)
        return ("shell", type(o).__name__, tuple((k, digest(getattr(o, k, None), _depth + 1, rep)) for k in SHELL_PUBLIC))
    if hasattr(o, "__dict__") and not callable(o) and _depth < 6:
        return (
            "obj", type(o).__name__,
            tuple((k, digest(v, _depth + 1, rep)) for k, v in sorted(vars(o).items())),
        )
    return ("val", repr(o))


def arrays_of(o, _depth=0, out=None, caller_owned=False):
    """every ndarray reachable from ``o``; with ``caller_owned`` only the arrays a caller handed over: for a shell its
    centre, coefficients and exponents, not state the shell derives itself (norm_cont, private tables), which the shell's own
    methods may legitimately rewrite in place"""
    if out is None:
        out = []
    if isinstance(o, np.ndarray):
        out.append(o)
    elif caller_owned and _is_shell(o):
        for k in ("coord", "coeffs", "exps"):
            x = getattr(o, k, None)
            if isinstance(x, np.ndarray):
                out.append(x)
    elif isinstance(o, (list, tuple)):
        for x in o:
            arrays_of(x, _depth + 1, out, caller_owned)
    elif isinstance(o, dict):
        for x in o.values():
            arrays_of(x, _depth + 1, out, caller_owned)
    elif hasattr(o, "__dict__") and not callable(o) and _depth < 6:
        for x in vars(o).values():
            arrays_of(x, _depth + 1, out, caller_owned)
    return out


def freeze(o):
    """write-protect sentinel: every reachable ndarray becomes read-only (returns the count)."""
    n = 0
    for a in arrays_of(o, caller_owned=True):
        if a.flags.writeable:
            try:
                a.flags.writeable = False
                n += 1
            except ValueError:
                pass
    return n


def fpstate():
    return (tuple(sorted(np.geterr().items())), np.geterrcall())


# ------------------------------------------------------------------------------- conditions
def _make_public_contract(fn, name):
    def pre_state(_ARGS, _KWARGS):
        return (digest(_ARGS, rep=True), digest(_KWARGS, rep=True), fpstate())

    def post_state(_ARGS, _KWARGS, result, OLD):
        STATE.count("eval:" + name)
        dargs, dkw, fp = OLD.pre
        if dargs != digest(_ARGS, rep=True) or dkw != digest(_KWARGS, rep=True):
            STATE.fire("M-pure", "C19", name, "argument digest changed across a returning call")
        STATE.count("M-pure")
        if fp != fpstate():
            STATE.fire("M-fp", "C19", name, "numpy error state changed: %r -> %r" % (fp[0], fpstate()[0]))
        STATE.count("M-fp")
        if isinstance(result, np.ndarray) and result.dtype != object:
            for a in arrays_of((_ARGS, _KWARGS)):
                if np.may_share_memory(result, a):
                    STATE.fire("M-alias", "C19", name, "returned array shares memory with an argument")
                    break
            STATE.count("M-alias")
            if STATE.depth == 1 and result.size:
                # M-fresh (public): an array handed to the caller belongs to the caller. If it is, or overlaps, an array that
                # an EARLIER top-level call returned and that is still alive (held by the caller or by the library), the two
                # results are one piece of memory: writing to one changes the other, and a later call may hand out a
                # modified array. Dead weak references (arrays the caller dropped) are skipped, so reuse of freed memory by
                # the allocator cannot fire.
                alive = []
                for w in STATE.recent_public:
                    r = w()
                    if r is not None:
                        alive.append(w)
                        if r is result:
                            STATE.fire("M-fresh", "C19", name, "the very same array object was returned by an earlier public call and is handed out again")
                        elif np.may_share_memory(result, r) and np.shares_memory(result, r):
                            STATE.fire("M-fresh", "C19", name, "returned array shares memory with an array returned by an earlier public call")
                try:
                    alive.append(weakref.ref(result))
                except TypeError:
                    pass
                STATE.recent_public = alive[-48:]
                STATE.count("M-fresh-public")
            if result.ndim >= 2 and result.shape[0] == result.shape[1] and result.size:
                sc = float(np.abs(result).max()) if np.all(np.isfinite(result)) else np.inf
                if np.isfinite(sc) and (name in SYMMETRIC or name in HERMITIAN):
                    # floor: rounding noise of elements that vanish by symmetry scales with the largest
                    # exponent (kinetic-type scale); precise, conditioning-aware checks live in C08/C11
                    amax = 1.0
                    try:
                        amax += max(float(np.max(sh.exps)) for sh in _ARGS[0])
                    except Exception:
                        pass
                    floor = 1e-10 * amax
                    if name in HERMITIAN:
                        # never stricter than the owning check (C08: 1e-9 of the natural magnitude sqrt(2T) <= sqrt(11 alpha) of
                        # the functions, carried through |T| when a transformation is given): a matrix that vanishes by
                        # symmetry (one centre) is rounding noise of exactly that size (FA29)
                        tf = 1.0
                        try:
                            T_ = _KWARGS.get("transform", _ARGS[1] if len(_ARGS) > 1 else None)
                            if isinstance(T_, np.ndarray) and T_.ndim == 2 and T_.size:
                                tf = max(1.0, float(np.abs(T_).max()) ** 2 * T_.shape[1])
                        except Exception:
                            pass
                        floor += 1e-9 * np.sqrt(11.0 * amax) * tf
                    if name == "angular_momentum_integral":
                        # r x p about the coordinate origin: the natural scale of an element is |R| sqrt(2T), so the
                        # rounding noise of a vanishing element grows with the distance of the shells from the origin
                        try:
                            # (1e-9 of that natural scale, the bound the precise check of C08 itself applies: the always-on
                            # monitor must never be stricter than the check that owns the statement)
                            floor += 1e-9 * np.sqrt(3.0 * amax) * max(float(np.linalg.norm(sh.coord)) for sh in _ARGS[0])
                        except Exception:
                            pass
                    if name in SYMMETRIC:
                        d = float(np.abs(result - np.swapaxes(result, 0, 1)).max())
                        STATE.count("M-sym")
                        if d > 1e-9 * sc + floor:
                            STATE.fire("M-sym", "C11", name, "asymmetry %.3e of scale %.3e" % (d, sc))
                    elif name in HERMITIAN:
                        d = float(np.abs(result - np.conj(np.swapaxes(result, 0, 1))).max())
                        STATE.count("M-herm")
                        if d > 1e-9 * sc + floor:
                            STATE.fire("M-herm", "C08", name, "non-Hermitian by %.3e of scale %.3e" % (d, sc))
        return True

    c = icontract.ensure(post_state, error=MonitorFired)(fn)
    c = icontract.snapshot(pre_state, name="pre")(c)
    return c


def _guard(contracted, name):
    """outer guard: observes the raise path (state after an exception)."""

    @functools.wraps(contracted)
    def guarded(*args, **kwargs):
        if STATE.depth > 0:  # nested public call: contracts still run, raise path judged at top level
            STATE.depth += 1
            try:
                return contracted(*args, **kwargs)
            finally:
                STATE.depth -= 1
        pre = (digest(args, rep=True), digest(kwargs, rep=True), fpstate())
        STATE.depth += 1
        try:
            out = contracted(*args, **kwargs)
            if STATE.trace:
                STATE.calls.append((name, "return"))
            return out
        except MonitorFired:
            raise
        except BaseException as exc:
            STATE.count("raise:" + name)
            STATE.count("M-pure-raise")
            if pre[0] != digest(args, rep=True) or pre[1] != digest(kwargs, rep=True):
                STATE.fire("M-pure", "C19", name, "argument digest changed across a raising call (%s)" % type(exc).__name__)
            if pre[2] != fpstate():
                STATE.fire(
                    "M-fp", "C19", name,
                    "numpy error state changed across a raising call (%s): %r -> %r" % (type(exc).__name__, pre[2][0], fpstate()[0]),
                )
            if STATE.trace:
                STATE.calls.append((name, type(exc).__name__))
            raise
        finally:
            STATE.depth -= 1

    guarded.__vmon_original__ = getattr(contracted, "__wrapped__", contracted)
    return guarded


def _make_kernel_contract(fn, name):
    def post_kernel(_ARGS, _KWARGS, result):
        STATE.count("kernel:" + name)
        if isinstance(result, np.ndarray):
            for a in arrays_of((_ARGS, _KWARGS)):
                if np.may_share_memory(result, a):
                    STATE.fire("M-fresh", "C19", name, "kernel result shares memory with an argument/shell attribute")
                    break
            alive = []
            for w in STATE.recent_results:
                r = w()
                if r is not None:
                    alive.append(w)
                    if r is result:
                        STATE.fire("M-fresh", "C19", name, "kernel returned the very same array object as an earlier call (the assembly code scales blocks in place)")
                    elif np.may_share_memory(result, r):
                        STATE.fire("M-fresh", "C19", name, "kernel result shares memory with an earlier result")
            alive.append(weakref.ref(result))
            STATE.recent_results = alive[-32:]
            STATE.count("M-fresh")
        return True

    return icontract.ensure(post_kernel, error=MonitorFired)(fn)


def _make_boys_contract(fn):
    def post_boys(orders, weighted_dist, result):
        STATE.count("boys")
        if len(STATE.boys) < 20000:
            wd = np.asarray(weighted_dist)
            if wd.size:
                STATE.boys.append((int(np.max(orders)), float(wd.min()), float(wd.max())))
        return True

    return icontract.ensure(post_boys, error=MonitorFired)(fn)


# ------------------------------------------------------------------------------- installation
_INSTALLED = {}


def _rebind(orig, new):
    """Replace every import-time binding of ``orig`` inside gbasis modules and classes."""
    n = 0
    for mname, mod in list(sys.modules.items()):
        if mod is None or not (mname == "gbasis" or mname.startswith("gbasis.")):
            continue
        for k, v in list(vars(mod).items()):
            if v is orig:
                setattr(mod, k, new)
                n += 1
            elif isinstance(v, type) and getattr(v, "__module__", "").startswith("gbasis"):
                for ck, cv in list(vars(v).items()):
                    raw = cv.__func__ if isinstance(cv, (staticmethod, classmethod)) else cv
                    if raw is orig:
                        if isinstance(cv, staticmethod):
                            setattr(v, ck, staticmethod(new))
                        elif isinstance(cv, classmethod):
                            setattr(v, ck, classmethod(new))
                        else:
                            setattr(v, ck, new)
                        n += 1
    return n


def install():
    """Idempotent. Returns {name: number of rebound references}."""
    if _INSTALLED:
        return _INSTALLED
    import importlib

    env.import_all_gbasis()
    for mname, fname in PUBLIC:
        mod = importlib.import_module(mname)
        orig = getattr(mod, fname)
        new = _guard(_make_public_contract(orig, fname), fname)
        _INSTALLED[fname] = _rebind(orig, new)
    for mname, cname in KERNEL_CLASSES:
        mod = importlib.import_module(mname)
        cls = getattr(mod, cname)
        desc = cls.__dict__["construct_array_contraction"]
        raw = desc.__func__ if isinstance(desc, (staticmethod, classmethod)) else desc
        new = _make_kernel_contract(raw, cname)
        # classes that borrowed this kernel (OverlapAsymmetric) hold their own staticmethod(raw-bound)
        bound_before = getattr(cls, "construct_array_contraction")
        if isinstance(desc, staticmethod):
            setattr(cls, "construct_array_contraction", staticmethod(new))
        elif isinstance(desc, classmethod):
            setattr(cls, "construct_array_contraction", classmethod(new))
        else:
            setattr(cls, "construct_array_contraction", new)
        n = 1
        if isinstance(desc, staticmethod):
            n += _rebind(bound_before, new)
        _INSTALLED[cname + ".kernel"] = n
    # Boys function (a staticmethod also bound at module level in _two-electron users)
    pc = importlib.import_module("gbasis.integrals.point_charge")
    desc = pc.PointChargeIntegral.__dict__["boys_func"]
    raw = desc.__func__
    new = _make_boys_contract(raw)
    pc.PointChargeIntegral.boys_func = staticmethod(new)
    _INSTALLED["boys_func"] = 1 + _rebind(raw, new)
    return _INSTALLED


def original(fname):
    """The undecorated function (for timing comparisons / replays without monitors)."""
    import importlib

    for mname, f in PUBLIC:
        if f == fname:
            return getattr(importlib.import_module(mname), fname).__vmon_original__
    raise KeyError(fname)
