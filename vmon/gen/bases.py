"""Workload generators: JSON-serialisable shell / basis / geometry descriptors with hostile classes.

A shell descriptor is {"l": int, "c": [x,y,z], "e": [K exps], "k": [[K x M coeffs]], "t": "c"|"p"}.
Everything is derived from a numpy Generator seeded by (VERIF_SEED, property, index) so that a case
is reproduced bit-for-bit from its descriptor alone (the descriptor stores the numbers, not the seed).
"""
import itertools

import numpy as np

TYPES = {"c": "cartesian", "p": "spherical"}


def cap(l):
    """Upper end of published exponent ranges: 1e5 for s, a decade less per unit of l, 10 from g on."""
    return max(10.0, 10.0 ** (5 - l))


def rng_for(*keys):
    import hashlib

    h = hashlib.sha256(repr(keys).encode()).digest()
    return np.random.default_rng(int.from_bytes(h[:8], "little"))


def _col_condition(l, exps, col):
    """|<f|f>| / sum |terms| of the un-normalised contraction (1 = no cancellation)."""
    e = np.asarray(exps, float)
    ov = (2 * np.sqrt(np.outer(e, e)) / np.add.outer(e, e)) ** (l + 1.5)
    cc = np.outer(col, col)
    return float(np.sum(cc * ov) / np.sum(np.abs(cc) * ov))


def rand_exps(rng, l, K, emin=0.02, emax=None, cls=None):
    emax = cap(l) if emax is None else emax
    cls = cls or rng.choice(["log", "log", "log", "edge-lo", "edge-hi", "equal", "ratio", "span"])
    e = np.exp(rng.uniform(np.log(emin), np.log(emax), size=K))
    if cls == "edge-lo":
        e[rng.integers(K)] = emin
    elif cls == "edge-hi":
        e[rng.integers(K)] = emax
    elif cls == "equal" and K >= 2:
        e[1] = e[0]
    elif cls == "ratio" and K >= 2:
        lo = np.exp(rng.uniform(np.log(emin), np.log(max(emin * 1.0001, emax / 1e6))))
        e[0], e[1] = lo, min(emax, lo * 1e6)
    elif cls == "span" and K >= 2:
        e[0], e[1] = emin, emax
    return [float(x) for x in e], str(cls)


def rand_coeffs(rng, l, exps, M, parallel=False, zeros=False, small=False):
    K = len(exps)
    for _ in range(200):
        c = rng.normal(size=(K, M))
        c[np.abs(c) < 0.05] = 0.3
        if small and K >= 2:
            # one primitive enters with a coefficient of 1e-3 .. 1e-4 (tight primitives of published contractions)
            c[int(rng.integers(K))] *= 10.0 ** -float(rng.uniform(2.5, 4.0))
        if zeros and K >= 2 and M >= 2:
            # exact zeros as in published general contractions (cc-pVXZ, ANO): every column and every primitive keeps
            # at least one non-zero entry
            z = rng.random(size=(K, M)) < 0.35
            for m in range(M):
                z[int(rng.integers(K)), m] = False
            for k in range(K):
                if z[k].all():
                    z[k, int(rng.integers(M))] = False
            c[z] = 0.0
        if parallel and M >= 2:
            c[:, 1] = c[:, 0] * 1.1 + 1e-3 * rng.normal(size=K)
        if all(_col_condition(l, exps, c[:, m]) > 0.02 for m in range(M)):
            return [[float(v) for v in row] for row in c]
    c = np.abs(c) + 0.1
    return [[float(v) for v in row] for row in c]


def prenormalise(l, exps, coeffs, digits):
    """Each column scaled to a unit-normalised contraction (coefficients multiplying NORMALISED primitives, as gbasis and
    the published tables define them) and then rounded to ``digits`` significant figures: the contraction is normalised
    to 1e-7 .. 1e-9, not exactly, as in every published basis-set file."""
    e = np.asarray(exps, float)
    ov = (2 * np.sqrt(np.outer(e, e)) / np.add.outer(e, e)) ** (l + 1.5)
    c = np.array(coeffs, dtype=float)
    for m in range(c.shape[1]):
        c[:, m] /= np.sqrt(c[:, m] @ ov @ c[:, m])
        c[:, m] = [float("%.*e" % (digits - 1, v)) for v in c[:, m]]
    return [[float(v) for v in row] for row in c]


def rand_shell(rng, l, K=None, M=None, t=None, center=None, emin=0.02, emax=None, ecls=None, Kmax=4, Mmax=3):
    K = int(K or rng.integers(1, Kmax + 1))
    M = int(M or rng.integers(1, Mmax + 1))
    exps, ecls = rand_exps(rng, l, K, emin, emax, ecls)
    par = bool(M >= 2 and rng.random() < 0.1)
    zer = bool(M >= 2 and K >= 2 and not par and rng.random() < 0.15)
    sml = bool(K >= 2 and rng.random() < 0.15)
    coeffs = rand_coeffs(rng, l, exps, M, parallel=par, zeros=zer, small=sml)
    pre = bool(rng.random() < 0.12)
    if pre:
        coeffs = prenormalise(l, exps, coeffs, int(rng.integers(6, 9)))
    scl = bool(not pre and rng.random() < 0.08)
    if scl:
        # the whole coefficient matrix of the shell in other units (contractions are renormalised, so only the relative
        # sizes matter): overall factors of 1e-7 .. 1e-4 and 1e4 .. 1e7
        f_ = 10.0 ** float(rng.uniform(4.0, 7.0) * rng.choice([-1.0, 1.0]))
        coeffs = [[v * f_ for v in row] for row in coeffs]
    if center is None:
        center = rng.normal(size=3) * 1.5
    t = t or str(rng.choice(["c", "p"]))
    return {"l": int(l), "c": [float(x) for x in center], "e": exps, "k": coeffs, "t": t,
            "_cls": ["exp:" + ecls] + (["coef:parallel"] if par else []) + (["coef:zeros"] if zer else []) + (["coef:small"] if sml else []) + (["coef:prenormalised"] if pre else []) + (["coef:overall-scale"] if scl else [])}


GEOM_CLASSES = ["coincident", "collinear", "coplanar", "general", "axis-zero", "axis-almost", "far", "near", "diagonal", "lattice"]


def rand_centers(rng, n, cls=None, scale=1.5, offset=True):
    cls = cls or str(rng.choice(GEOM_CLASSES))
    if cls == "coincident":
        c0 = rng.normal(size=3) * scale
        pts = np.tile(c0, (n, 1))
    elif cls == "collinear":
        d = rng.normal(size=3)
        d /= np.linalg.norm(d)
        pts = np.outer(rng.normal(size=n) * scale, d) + rng.normal(size=3)
    elif cls == "coplanar":
        pts = rng.normal(size=(n, 3)) * scale
        pts[:, int(rng.integers(3))] = 0.0
    elif cls == "axis-zero":  # coordinate differences that are exactly zero on some axes
        pts = rng.normal(size=(n, 3)) * scale
        ax = int(rng.integers(3))
        pts[:, ax] = pts[0, ax]
        if n > 1:
            pts[1, (ax + 1) % 3] = pts[0, (ax + 1) % 3]
    elif cls == "axis-almost":  # coordinates that agree to 1e-6 relative but not exactly (nearly aligned centres)
        pts = rng.normal(size=(n, 3)) * scale
        ax = int(rng.integers(3))
        pts[:, ax] = pts[0, ax] * (1.0 + 1e-6 * rng.normal(size=n))
        pts[0, ax] = pts[0, ax]
    elif cls == "far":
        pts = rng.normal(size=(n, 3)) * scale
        if n > 1:
            pts[1:] += rng.choice([4.0, 12.0, 30.0]) * np.array([1.0, 0.3, -0.2])
    elif cls == "diagonal":  # centres along a body or face diagonal: all coordinate differences equal in magnitude
        sg = rng.choice([-1.0, 1.0], size=3) * (rng.random(3) < 0.8)
        if not sg.any():
            sg[0] = 1.0
        pts = rng.normal(size=3) * scale + np.outer(rng.normal(size=n) * scale * 1.5, sg)
    elif cls == "lattice":  # integer / half-integer coordinates (idealised geometries, grids): many exact coincidences of components
        pts = np.round(rng.normal(size=(n, 3)) * scale * 2) / 2.0
    elif cls == "near":
        c0 = rng.normal(size=3) * scale
        pts = c0 + rng.normal(size=(n, 3)) * rng.choice([1e-8, 1e-6, 1e-5, 1e-4, 1e-3, 0.3])
    else:
        pts = rng.normal(size=(n, 3)) * scale
    pts = np.asarray(pts, dtype=float)
    if offset and rng.random() < 0.25:
        # the whole system far from the coordinate origin (finite-difference displaced copies, floating functions):
        # nearly coincident centres then differ by less than 1e-5 x |coordinate|
        d = rng.normal(size=3)
        far = rng.random() < 0.25
        pts = pts + d / np.linalg.norm(d) * float(rng.uniform(300.0, 3000.0) if far else rng.uniform(8.0, 30.0))
        cls = cls + ("+offset-huge" if far else "+offset")
    return [[float(v) for v in p] for p in pts], "geom:" + cls


def rand_basis(rng, ls, types=None, geom=None, emin=0.02, emax_fn=cap, Kmax=4, Mmax=3, scale=1.5, distinct_M=True, symmetric=None):
    n = len(ls)
    centers, gcls = rand_centers(rng, n, geom, scale)
    shells = []
    Ms = list(rng.permutation(Mmax)[:n] + 1) if (distinct_M and n <= Mmax) else [int(rng.integers(1, Mmax + 1)) for _ in range(n)]
    for i, l in enumerate(ls):
        t = types[i] if types else None
        shells.append(rand_shell(rng, l, M=int(Ms[i]), t=t, center=centers[i], emin=emin,
                                 emax=emax_fn(l) if emax_fn else None, Kmax=Kmax, Mmax=Mmax))
    classes = {gcls}
    for s in shells:
        classes.update(s.pop("_cls"))
    if n >= 2 and rng.random() < 0.12:
        # two DIFFERENT shells on one exponent set (segmented basis sets reuse the primitives of an atom; S and P of a Pople SP
        # block): same exponents and - where the angular momentum agrees - the same number of columns, other coefficients
        i_, j_ = (int(x) for x in rng.permutation(n)[:2])
        if ls[i_] != ls[j_]:
            same = [(a, b) for a in range(n) for b in range(a + 1, n) if ls[a] == ls[b]]
            if same and rng.random() < 0.7:
                i_, j_ = same[int(rng.integers(len(same)))]
        shells[j_]["e"] = list(shells[i_]["e"])
        M_ = len(shells[i_]["k"][0]) if ls[i_] == ls[j_] else len(shells[j_]["k"][0])
        shells[j_]["k"] = rand_coeffs(rng, ls[j_], shells[j_]["e"], M_)
        classes.add("exp:shared-between-shells")
    if symmetric is None:
        symmetric = bool(rng.random() < 0.15)
    if symmetric and geom is None and ((n >= 3 and ls[1] <= min(ls[2:])) or (n == 2 and ls[0] == ls[1])):
        shells = symmetrize(rng, shells)
        classes = {c for c in classes if not c.startswith("geom:")} | {"geom:symmetric-molecule"}
    return shells, sorted(classes)


def symmetrize(rng, shells):
    """Equivalent atoms: shells 2.. become copies of shell 1 (same l, exponents, coefficients; the coordinate type of each
    position is kept half of the time) placed on the vertices of a regular polygon around shell 0 (XH2 linear, XH3, XH4
    planar), or - for two shells of equal l - a homonuclear pair. Every real molecule has such shells; random bases never
    do. Pairs of identical parameters at equal distance but different (also opposite) direction are what distinguishes a
    block computed for THIS pair from one reused from an equivalent-looking pair."""
    shells = [dict(s) for s in shells]
    n = len(shells)
    if n == 2:
        shells[1] = dict(shells[0], c=shells[1]["c"], t=shells[1]["t"] if rng.random() < 0.5 else shells[0]["t"])
        return shells
    c0 = np.array(shells[0]["c"], dtype=float)
    R = float(np.linalg.norm(np.array(shells[1]["c"]) - c0))
    if not 0.5 <= R <= 4.0:
        R = float(rng.uniform(0.8, 3.0))
    u = rng.normal(size=3)
    u /= np.linalg.norm(u)
    v = np.cross(u, rng.normal(size=3))
    v /= np.linalg.norm(v)
    m = n - 1
    same_t = rng.random() < 0.5
    for k in range(m):
        ang = 2 * np.pi * k / m
        pos = c0 + R * (np.cos(ang) * u + np.sin(ang) * v)
        shells[1 + k] = dict(shells[1], c=[float(x) for x in pos], t=shells[1]["t"] if same_t else shells[1 + k]["t"])
    return shells


def window_pair(rng, la, lb, tmin=18.0, tmax=40.0, emin=0.05, emax=60.0):
    """Two single-primitive-dominated shells whose separation puts the Gaussian product factor exp(-mu R^2) in the
    window 1e-8 .. 1e-17 ("screening window"): polynomial prefactors of high angular momentum keep the normalised
    integrals above 1e-8 of their natural scale there, so an l-independent cut-off or a decay shortcut shows."""
    shells = []
    for l in (la, lb):
        K = int(rng.integers(1, 3))
        e = float(np.exp(rng.uniform(np.log(emin), np.log(min(emax, cap(l))))))
        exps = [e] + [float(e * rng.uniform(1.5, 6.0)) for _ in range(K - 1)]
        s = {"l": int(l), "c": [0.0, 0.0, 0.0], "e": exps, "k": rand_coeffs(rng, l, exps, int(rng.integers(1, 3))), "t": str(rng.choice(["c", "p"]))}
        shells.append(s)
    a, b = min(shells[0]["e"]), min(shells[1]["e"])
    mu = a * b / (a + b)
    t = float(rng.uniform(tmin, tmax))
    R = float(np.sqrt(t / mu))
    u = rng.normal(size=3)
    u /= np.linalg.norm(u)
    c0 = rng.normal(size=3)
    shells[0]["c"] = [float(v) for v in c0]
    shells[1]["c"] = [float(v) for v in c0 + u * R]
    return shells, ["geom:screening-window", "window:t=%d" % int(t)]


def displaced_pair(rng, la, lb, emax=40.0):
    """Two shells on nearly coincident centres (a finite-difference displaced copy / a floating function next to an
    atom), the pair sitting 0, 10 or 30 bohr from the coordinate origin: the displacement (1e-6 .. 1e-4 bohr) is below
    1e-5 x |coordinate|, yet the integrals between the two shells depend on it at the 1e-6 .. 1e-4 level."""
    shells = []
    for l in (la, lb):
        K = int(rng.integers(1, 3))
        exps = [float(np.exp(rng.uniform(np.log(0.3), np.log(min(emax, cap(l)))))) for _ in range(K)]
        shells.append({"l": int(l), "c": None, "e": exps, "k": rand_coeffs(rng, l, exps, int(rng.integers(1, 3))), "t": str(rng.choice(["c", "p"]))})
    R = float(rng.choice([0.0, 10.0, 30.0]))
    u = rng.normal(size=3)
    u /= np.linalg.norm(u)
    c0 = u * R + rng.normal(size=3) * 0.3
    delta = float(rng.choice([1e-6, 1e-5, 3e-5, 1e-4]))
    v = rng.normal(size=3)
    v /= np.linalg.norm(v)
    shells[0]["c"] = [float(x) for x in c0]
    shells[1]["c"] = [float(x) for x in c0 + v * delta]
    return shells, ["geom:displaced-copy", "delta:%g" % delta, "origin-distance:%g" % R]


# --------------------------------------------------------------------------------- builders
def _arr_rep(vals, kind):
    """The same float64 numbers in another legitimate in-memory representation (see props.common.rep)."""
    a = np.array(vals, dtype=float)
    if kind == "f":
        return np.asfortranarray(a)
    if kind == "strided":
        big = np.full(tuple(2 * n for n in a.shape), 7.25, dtype=float)
        sl = tuple(slice(None, None, 2) for _ in a.shape)
        big[sl] = a
        return big[sl]
    if kind == "readonly":
        a.flags.writeable = False
        return a
    if kind == "neg":
        return np.ascontiguousarray(a[::-1])[::-1]
    if kind == "T":  # transposed view of the (M, K) array a parser would hold
        return np.ascontiguousarray(a.T).T
    if kind == "1d" and a.ndim == 2 and a.shape[1] == 1:
        return np.ascontiguousarray(a[:, 0])
    if kind == "row" and a.ndim == 1:  # coordinates as a (1, 3) row: `coord.size == 3` is what the shell class asks for
        return a.reshape(1, 3)
    if kind == "int" and np.array_equal(a, np.rint(a)):
        return np.array(a, dtype=int)
    return a


def build(shells, cls=None):
    """gbasis shell objects from descriptors (fresh arrays every time).

    Optional descriptor keys (all leave the numbers unchanged, the reference model never sees them):
      "dup_key"  the same shell OBJECT listed more than once (add_dup)
      "rep"      {"k"|"e"|"c": representation} in-memory representation of the coefficient / exponent / centre array
                 handed to the constructor (Fortran order, strided view, read-only, negative strides, transposed view,
                 1-D coefficients, integer centre), and "t": "short" for the one-letter coordinate type
      "ic"       the atom index ``icenter`` handed to the constructor (a label: two make_contractions results concatenated
                 into one basis repeat the indices on different centres)
      "renorm"   number of extra assign_norm_cont() calls right after construction
      "share"    key: shells with the same key are given the same centre ndarray OBJECT (what make_contractions does for
                 the shells of one atom); "share_e": the same exponent ndarray object
    """
    from gbasis.contractions import GeneralizedContractionShell

    cls = cls or GeneralizedContractionShell
    out = []
    shared, coords, expsobj = {}, {}, {}
    for s in shells:
        key = s.get("dup_key")
        if key is not None and key in shared:
            out.append(shared[key])  # the same shell OBJECT listed more than once (see add_dup)
            continue
        rep = s.get("rep") or {}
        coord = _arr_rep(s["c"], rep.get("c", "c"))
        if s.get("share") is not None:
            coord = coords.setdefault((s["share"], tuple(s["c"])), coord)
        exps = _arr_rep(s["e"], rep.get("e", "c"))
        if s.get("share_e") is not None:
            exps = expsobj.setdefault((s["share_e"], tuple(s["e"])), exps)
        coeffs = _arr_rep(s["k"], rep.get("k", "c"))
        ctype = s["t"] if rep.get("t") == "short" else TYPES[s["t"]]
        if s.get("ic") is not None:
            out.append(cls(int(s["l"]), coord, coeffs, exps, ctype, icenter=int(s["ic"])))
        else:
            out.append(cls(int(s["l"]), coord, coeffs, exps, ctype))
        for _ in range(int(s.get("renorm", 0))):
            out[-1].assign_norm_cont()  # recomputing the normalisation of unchanged parameters changes nothing
        if key is not None:
            shared[key] = out[-1]
    return out


ARG_REPS = {"k": ["f", "strided", "readonly", "neg", "T", "1d"], "e": ["strided", "readonly", "neg"], "c": ["strided", "readonly", "neg", "int"]}


def add_argrep(rng, shells, classes):
    """Every shell's constructor arguments in a random legitimate representation; shells on one centre share the centre
    array object and shells with identical exponents the exponent array (as the shells of one atom do after
    ``make_contractions``). An integer centre is used only where the coordinates are integer-valued already."""
    shells = [dict(s) for s in shells]
    used = set()
    if len(shells) >= 3 and rng.random() < 0.35 and not any(s_.get("dup_key") is not None for s_ in shells):
        # two shells on one atom, the others elsewhere ([A, A, B]): with shared centre arrays the atoms are then referenced by
        # different numbers of shells
        shells[1]["c"] = list(shells[0]["c"])
        shells[0]["share"] = shells[1]["share"] = "g"
        used.add("two-shells-one-atom")
    for s in shells:
        rep = {}
        for which in ("k", "e", "c"):
            if rng.random() < 0.6:
                kind = str(rng.choice(ARG_REPS[which]))
                if kind == "1d" and len(s["k"][0]) != 1:
                    kind = "T"
                if kind == "int" and any(float(v) != round(float(v)) for v in s["c"]):
                    kind = "neg"
                rep[which] = kind
        if rng.random() < 0.4:
            rep["t"] = "short"
        s["rep"] = rep
        if rng.random() < 0.6:
            s["ic"] = int(rng.integers(0, 2))  # atom labels, deliberately repeated on different centres
            used.add("icenter")
        if rng.random() < 0.3:
            s["renorm"] = int(rng.integers(1, 3))  # assign_norm_cont() called again once or twice after construction
            used.add("renormalised-again")
        if rng.random() < 0.5 or s.get("share"):
            s["share"] = "g"
        if rng.random() < 0.5:
            s["share_e"] = "g"
        used.update("%s=%s" % kv for kv in rep.items())
    return shells, list(classes) + ["argrep"] + sorted("argrep:" + u for u in used)


def argrep_variants(pid, seed, tier, cases, every, ok=None):
    """copies of every ``every``-th case with the shell constructor arguments in other representations (add_argrep)"""
    out = []
    for i, c in enumerate(cases):
        if i % every == every // 3 and (ok is None or ok(c)):
            rng = rng_for(pid, seed, tier, "argrep", i)
            d = dict(c)
            d["shells"], d["classes"] = add_argrep(rng, c["shells"], c.get("classes", []))
            out.append(d)
    return out


def add_dup(rng, shells, classes):
    """List one of the shells a second time AS THE SAME OBJECT (descriptors sharing a ``dup_key`` are built once): a
    basis may legitimately repeat a shell object, and assembly code that keys blocks by the object or skips
    ``a is b`` pairs goes wrong there while every basis of distinct objects stays right. With probability 1/2 all
    shells get one coordinate type so that the all-spherical / all-Cartesian assembly paths are taken."""
    shells = [dict(s) for s in shells]
    if rng.random() < 0.5:
        t = str(rng.choice(["c", "p"]))
        for s in shells:
            s["t"] = t
    j = int(rng.integers(len(shells)))
    shells[j]["dup_key"] = "d%d" % j
    pos = int(rng.integers(len(shells) + 1))
    shells.insert(pos, dict(shells[j]))
    return shells, list(classes) + ["dup-object"]


def rshells(shells, types=None):
    """Reference-model shells straight from the descriptors (documented default orders)."""
    from vmon.ref import gto

    out = []
    for i, s in enumerate(shells):
        t = types[i] if types else s["t"]
        out.append(gto.RShell(s["l"], s["c"], s["e"], s["k"], TYPES.get(t, t)))
    return out


def nfunc(s, t=None):
    t = t or s["t"]
    M = len(s["k"][0])
    return M * ((s["l"] + 1) * (s["l"] + 2) // 2 if t == "c" else 2 * s["l"] + 1)


def type_patterns(n):
    return ["".join(p) for p in itertools.product("cp", repeat=n)]


def rand_points(rng, shells, n, extra_centers=()):
    """Points incl. hostile picks: on a centre, on axes/planes through a centre, +-1e-8 off, far."""
    cs = [np.array(s["c"]) for s in shells] + [np.array(c) for c in extra_centers]
    pts, classes = [], set()
    for i in range(n):
        c = cs[int(rng.integers(len(cs)))]
        kind = str(rng.choice(["generic", "generic", "center", "axis", "plane", "off-1e-8", "far"]))
        if kind == "center":
            p = c.copy()
        elif kind == "axis":
            p = c.copy()
            p[int(rng.integers(3))] += rng.normal()
        elif kind == "plane":
            p = c + rng.normal(size=3)
            ax = int(rng.integers(3))
            p[ax] = c[ax]
        elif kind == "off-1e-8":
            p = c + 1e-8 * rng.normal(size=3)
        elif kind == "far":
            p = c + rng.normal(size=3) * 8.0
        else:
            p = c + rng.normal(size=3) * 1.2
        classes.add("pt:" + kind)
        pts.append([float(v) for v in p])
    if n >= 2 and rng.random() < 0.15:
        j, k = (int(x) for x in rng.permutation(n)[:2])
        pts[k] = list(pts[j])  # the same point listed twice (grids assembled from overlapping atomic grids)
        classes.add("pt:duplicate")
    return pts, sorted(classes)


def npts_pick(rng, hi):
    """number of points/charges in 1..hi-1 with the counts that coincide with an array dimension (3 = number of Cartesian
    axes, 1, 2) over-represented: a (3, 3) coordinate array is the one whose layout cannot be told from its shape"""
    r = rng.random()
    if r < 0.15:
        return min(3, hi - 1)
    if r < 0.22:
        return int(rng.integers(1, 3))
    return int(rng.integers(1, hi))


def rand_sym(rng, n, kind=None):
    """Symmetric density matrices: PSD of rank r, indefinite, diagonal, zero."""
    kind = kind or str(rng.choice(["psd", "psd-lowrank", "indef", "diag", "psd"]))
    if kind == "psd":
        a = rng.normal(size=(n, n))
        g = a @ a.T
    elif kind == "psd-lowrank":
        a = rng.normal(size=(n, max(1, n // 3)))
        g = a @ a.T
    elif kind == "indef":
        a = rng.normal(size=(n, n))
        g = a + a.T
    elif kind == "diag":
        g = np.diag(rng.uniform(0, 2, size=n))
    elif kind == "diag-indef":  # occupation numbers of a spin / difference density: exactly diagonal, both signs, some zeros
        g = np.diag(rng.choice([-1.0, -0.25, 0.0, 0.5, 1.0, 2.0], size=n) * rng.uniform(0.5, 1.0, size=n))
        if n >= 2:
            g[0, 0], g[1, 1] = -abs(g[0, 0]) - 0.3, abs(g[1, 1]) + 0.3
    elif kind == "hollow":  # exact zeros on (part of) the diagonal with non-zero elements in those rows: transition densities, E_ij + E_ji
        a = rng.normal(size=(n, n))
        g = a + a.T
        z = rng.random(n) < 0.6
        z[0] = True
        g[np.diag_indices(n)] = np.where(z, 0.0, np.diag(g))
        if n == 1:
            g[0, 0] = 0.0
    elif kind == "idempotent":  # projector onto a random subspace (closed-shell density in an orthonormal basis)
        q = np.linalg.qr(rng.normal(size=(n, n)))[0][:, : max(1, n // 2)]
        g = q @ q.T
    elif kind == "blockdiag":  # two uncoupled blocks, the second one indefinite
        g = np.zeros((n, n))
        k = max(1, n // 2)
        a = rng.normal(size=(k, k))
        g[:k, :k] = a @ a.T
        b = rng.normal(size=(n - k, n - k))
        g[k:, k:] = b + b.T
    else:
        g = np.zeros((n, n))
    g = 0.5 * (g + g.T)
    return [[float(v) for v in row] for row in g], "dm:" + kind


def rand_transform(rng, n, kind=None):
    kind = kind or str(rng.choice(["none", "orth", "singular", "fewer", "more", "general", "near-identity", "identity"]))
    if kind == "none":
        return None, "T:none"
    if kind == "near-identity":
        # a renormalisation / tiny rotation: close to the identity but not equal to it
        T = np.eye(n) * (1.0 + float(rng.choice([5e-6, -3e-6, 2e-7]))) + np.diag(1e-6 * rng.normal(size=n)) + 1e-9 * rng.normal(size=(n, n))
    elif kind == "identity":
        T = np.eye(n)
    elif kind == "orth":
        T = np.linalg.qr(rng.normal(size=(n, n)))[0]
    elif kind == "singular":
        T = rng.normal(size=(n, n))
        T[-1] = T[0]
    elif kind == "fewer":
        T = rng.normal(size=(max(1, n - int(rng.integers(1, max(2, n)))), n))
    elif kind == "more":
        T = rng.normal(size=(n + int(rng.integers(1, 4)), n))
    else:
        T = rng.normal(size=(n, n))
    return [[float(v) for v in row] for row in T], "T:" + kind


def dup_variants(pid, seed, tier, cases, every, ok=None):
    """copies of every ``every``-th small case with one shell listed twice as the same object (see add_dup)"""
    out = []
    for i, c in enumerate(cases):
        if i % every == every // 2 and len(c["shells"]) <= 3 and (ok is None or ok(c)):
            rng = rng_for(pid, seed, tier, "dup", i)
            d = dict(c)
            d["shells"], d["classes"] = add_dup(rng, c["shells"], c.get("classes", []))
            d["cost"] = c.get("cost", 1) * 2
            out.append(d)
    return out


def tight_far_pair(rng, la, lb):
    """Two shells with exponents at the upper edge of the published range, a fraction of a bohr apart, the pair
    1000..3000 bohr from the coordinate origin: absolute coordinates are then 1e8..1e12 times larger than the width
    of the functions, so that anything evaluated in absolute instead of relative coordinates loses its digits."""
    d = rng.normal(size=3)
    off = d / np.linalg.norm(d) * float(rng.uniform(1000.0, 3000.0))
    shells = []
    for l in (la, lb):
        s = rand_shell(rng, l, center=off + rng.normal(size=3) * 0.05, emin=cap(l) / 300.0, emax=cap(l), ecls=str(rng.choice(["edge-hi", "log"])), Kmax=3, Mmax=2)
        s.pop("_cls")
        shells.append(s)
    return shells, ["geom:tight-far"]


def tight_near_pair(rng, la, lb, boost=1.0):
    """Two tight shells (exponents in the top decade and a half of the published range) whose centres are about one width
    1/sqrt(alpha) apart (0.003 .. 0.1 bohr), coordinates with all their digits: there the integrals between them change by
    1e-8 for a displacement of 1e-10..1e-9 bohr, so centres that are rounded, snapped to a grid or stored in lower
    precision show."""
    shells = []
    c0 = rng.normal(size=3) * 1.5
    amax = 0.0
    for l in (la, lb):
        s = rand_shell(rng, l, center=c0, emin=boost * cap(l) / 30.0, emax=boost * cap(l), ecls=str(rng.choice(["edge-hi", "log"])), Kmax=2, Mmax=2)
        s.pop("_cls")
        amax = max(amax, max(s["e"]))
        shells.append(s)
    u = rng.normal(size=3)
    u /= np.linalg.norm(u)
    shells[1]["c"] = [float(v) for v in c0 + u * float(rng.uniform(0.6, 1.6)) / np.sqrt(amax)]
    return shells, ["geom:tight-near"] + (["exp:beyond-published-range(x%g)" % boost] if boost != 1.0 else [])
