"""Process bootstrap shared by every check, worker and tool of the monitor framework.

Importing this module (before numpy / gbasis are imported anywhere else)

* pins BLAS to one thread (parallelism is by process),
* puts the repository under test (``VERIF_REPO``, default ``/repo``) first on ``sys.path`` so that
  the *current working tree* is what gets monitored (gbasis is pure Python: nothing to build),
* makes ``icontract`` importable, installing it offline into ``/verif/.deps`` when missing,
* exposes paths, the seed and the budget knob.
"""
import os
import subprocess
import sys

for _v in ("OPENBLAS_NUM_THREADS", "OMP_NUM_THREADS", "MKL_NUM_THREADS", "NUMEXPR_NUM_THREADS"):
    os.environ.setdefault(_v, "1")
os.environ.setdefault("PYTHONDONTWRITEBYTECODE", "1")
sys.dont_write_bytecode = True

VERIF = os.path.dirname(os.path.dirname(os.path.abspath(__file__)))
REPO = os.path.abspath(os.environ.get("VERIF_REPO", "/repo"))
DEPS = os.path.join(VERIF, ".deps")
WORK = os.path.join(VERIF, ".work")
EVIDENCE = os.path.join(VERIF, "evidence")
REPLAYS = os.path.join(VERIF, "replays")
WHEELS = "/opt/veriftools/wheels"
PYTHON = "/venv/bin/python" if os.path.exists("/venv/bin/python") else sys.executable
GUARD = "GBASIS_VERIF"

SEED = int(os.environ.get("VERIF_SEED", "0") or 0)
NPROC = int(os.environ.get("VERIF_NPROC", "0") or 0) or min(16, os.cpu_count() or 1)


def budget_scale():
    """VERIF_BUDGET_S scales case counts (never verdicts); 1.0 when unset."""
    v = os.environ.get("VERIF_BUDGET_SCALE")
    try:
        return max(0.05, float(v)) if v else 1.0
    except ValueError:
        return 1.0


def ensure_deps():
    """Make icontract importable (offline install into .deps on first use)."""
    if DEPS not in sys.path:
        sys.path.insert(0, DEPS)
    try:
        import icontract  # noqa: F401

        return True
    except ImportError:
        pass
    os.makedirs(DEPS, exist_ok=True)
    cmd = [
        PYTHON, "-m", "pip", "install", "--quiet", "--no-index", "--find-links", WHEELS,
        "--target", DEPS, "--upgrade", "icontract",
    ]
    lock = os.path.join(VERIF, ".deps.lock")
    import fcntl

    with open(lock, "w") as fh:
        fcntl.flock(fh, fcntl.LOCK_EX)
        try:
            import importlib

            importlib.invalidate_caches()
            import icontract  # noqa: F401,F811

            return True
        except ImportError:
            subprocess.run(cmd, check=False, stdout=subprocess.DEVNULL, stderr=subprocess.DEVNULL,
                           env={**os.environ, "PIP_NO_INDEX": "1"})
    import importlib

    importlib.invalidate_caches()
    try:
        import icontract  # noqa: F401,F811

        return True
    except ImportError:
        return False


def bootstrap():
    """sys.path: repo under test first, then /verif, then deps."""
    for p in (VERIF, REPO):
        if p in sys.path:
            sys.path.remove(p)
        sys.path.insert(0, p)
    # drop an installed copy of gbasis that is not the tree under test
    os.makedirs(WORK, exist_ok=True)
    ok = ensure_deps()
    import gbasis

    here = os.path.dirname(os.path.abspath(gbasis.__file__))
    if os.path.dirname(here) != REPO:
        raise RuntimeError("gbasis imported from %s, expected %s" % (here, REPO))
    return ok


def import_all_gbasis():
    """Import every gbasis module except the optional libcint binding."""
    import importlib
    import pkgutil

    import gbasis

    mods = []
    for m in pkgutil.walk_packages(gbasis.__path__, "gbasis."):
        if "libcint" in m.name:
            continue
        mods.append(importlib.import_module(m.name))
    return mods
