"""Self-validation of the trusted base (reference model, harmonics, Boys, D-algebra, rotations).

A failing self-test makes checks *inconclusive* (exit 2), never "violated".
  python -m vmon.selftest [--full]     exit 0 ok / 2 failed
"""
import itertools
import json
import os
import sys
import time

from vmon import env

env.bootstrap()
import mpmath  # noqa: E402
import numpy as np  # noqa: E402

from vmon.ref import dalgebra, gto, rotrep  # noqa: E402

LD = np.longdouble


def hcart(l):
    return [(i.count(0), i.count(1), i.count(2)) for i in itertools.combinations_with_replacement(range(3), l)]


def hsph(l):
    if l == 1:
        return ["c1", "s1", "c0"]
    out = ["c0"] + [None] * (2 * l)
    out[1::2] = ["c%d" % m for m in range(1, l + 1)]
    out[2::2] = ["s%d" % m for m in range(1, l + 1)]
    return out


def hshells(desc, t):
    return [gto.RShell(s["l"], s["c"], s["e"], s["k"], t, cart_order=hcart(s["l"]), sph_order=hsph(s["l"])) for s in desc]


def run(full=False):
    res = []

    def rec(name, err, tol):
        res.append((name, float(err), tol, bool(err <= tol)))

    d = np.load(os.path.join(env.VERIF, "vmon", "ref", "data", "horton_hhe.npz"))
    # --- third-party data (HORTON), one-electron
    b = hshells(json.loads(str(d["basis_int"])), "cartesian")
    rec("horton overlap", np.abs(gto.overlap(b) - d["overlap"]).max(), 1e-12)
    rec("horton kinetic", np.abs(gto.kinetic(b) - d["kinetic"]).max(), 1e-11)
    if full:
        V = gto.point_charge(b, d["nuc_coords"], d["nuc_charges"]).sum(axis=2)
        rec("horton nuclear attraction", np.abs(V - d["nuc"]).max(), 1e-11)
    else:
        sub = [b[i] for i in (0, 2, 5, 9)] if len(b) > 9 else b[:4]
        idx = np.concatenate([np.arange(o, o + s.nfunc) for s, o in [(s, gto.offsets(b)[b.index(s)]) for s in sub]])
        V = gto.point_charge(sub, d["nuc_coords"], d["nuc_charges"]).sum(axis=2)
        rec("horton nuclear attraction (4 shells)", np.abs(V - d["nuc"][np.ix_(idx, idx)]).max(), 1e-11)
    # --- evaluations, cartesian and spherical (HORTON order)
    be = json.loads(str(d["basis_eval"]))
    rec("horton eval cart", np.abs(gto.eval_deriv_basis(hshells(be, "cartesian"), d["grid"], (0, 0, 0)) - d["eval_cart"]).max(), 1e-12)
    rec("horton eval sph", np.abs(gto.eval_deriv_basis(hshells(be, "spherical"), d["grid"], (0, 0, 0)) - d["eval_sph"]).max(), 1e-12)
    # --- ERI subsample
    bq = hshells(json.loads(str(d["basis_eri"])), "cartesian")
    qs = d["eri_quartets"]
    nq = len(qs) if full else 10
    worst = 0.0
    for n in range(nq):
        a, b_, c, dd = (int(x) for x in qs[n])
        blk = gto.eri_block(bq[a], bq[b_], bq[c], bq[dd])
        worst = max(worst, float(np.abs(blk - d["eri_%02d" % n]).max()))
    rec("horton ERI (%d shell quartets)" % nq, worst, 1e-12)
    # --- two internal algorithms agree: polynomial overlap == Hermite E_0 sqrt(pi/p)
    rng = np.random.default_rng(7)
    worst = 0.0
    for _ in range(30):
        a, bb = rng.uniform(0.05, 50, 2)
        A, B = rng.normal(size=2)
        la, lb = rng.integers(0, 6, 2)
        t = gto.table_1d(a, A, bb, B, la, lb)[0, 0]
        E = gto.hermite_E(a, A, bb, B, la, lb)[:, :, 0] * np.sqrt(LD(np.pi) / LD(a + bb))
        worst = max(worst, float(np.abs((t - E) / (np.abs(E) + 1e-300)).max()))
    rec("polynomial overlap vs Hermite expansion (relative)", worst, 1e-14)
    # --- Boys
    mpmath.mp.dps = 40
    worst = 0.0
    for n in (0, 1, 5, 12, 24):
        for x in (0.0, 1e-9, 0.3, 5.0, 33.0, 400.0, 1e4, 1e8):
            direct = gto.boys_ref(n, x)
            if x > 0:
                xm = mpmath.mpf(x)
                quad = float(mpmath.gammainc(n + 0.5, 0, xm) / (2 * xm ** (n + 0.5)))
                worst = max(worst, abs(direct - quad) / abs(quad))
            if 0 < x <= 5:
                quad = float(mpmath.quad(lambda t: t ** (2 * n) * mpmath.exp(-x * t * t), [0, 0.5, 1]))
                worst = max(worst, abs(direct - quad) / abs(quad))
            rec_all = gto.boys_all(24, x)
            worst = max(worst, abs(float(rec_all[n]) - direct) / abs(direct))
    rec("Boys function (mpmath hyp1f1 vs incomplete gamma / quadrature, downward recursion)", worst, 1e-13)
    mpmath.mp.dps = 40
    # --- solid harmonics: harmonic, orthonormal
    worstl, worsto = 0.0, 0.0
    for l in range(0, 11 if full else 7):
        order = gto.cart_components(l)
        T = gto.sph_transform(l, tuple(order), tuple(gto.default_sph_order(l)))
        ncart = np.array([1 / np.sqrt(gto.dfact(2 * c[0] - 1) * gto.dfact(2 * c[1] - 1) * gto.dfact(2 * c[2] - 1)) for c in order])
        G = np.array([[ncart[i] * ncart[j] * gto.gauss3d_monomial_moment(tuple(a + b for a, b in zip(ci, cj))) for j, cj in enumerate(order)] for i, ci in enumerate(order)])
        G = G / np.sqrt(np.outer(np.diag(G), np.diag(G)))
        worsto = max(worsto, float(np.abs(T @ G @ T.T - np.eye(2 * l + 1)).max()))
        for row in T:
            pol = {c: row[i] * ncart[i] for i, c in enumerate(order)}
            lap = {}
            for (a, b, c), v in pol.items():
                for ax, n in enumerate((a, b, c)):
                    if n >= 2:
                        k = [a, b, c]
                        k[ax] -= 2
                        lap[tuple(k)] = lap.get(tuple(k), 0.0) + v * n * (n - 1)
            worstl = max(worstl, max([abs(v) for v in lap.values()] or [0.0]) / max(abs(v) for v in pol.values()))
    rec("solid harmonics: Laplacian zero", worstl, 1e-12)
    rec("solid harmonics: orthonormal", worsto, 1e-12)
    # --- evaluations: derivative model vs finite differences of itself; D-algebra vs finite differences
    s = gto.RShell(3, [0.1, -0.2, 0.3], [0.7, 1.9], [[0.6, 1.0], [0.5, -0.3]], "spherical")
    p0 = np.array([[0.4, 0.3, -0.5]])
    h = 1e-3
    worst = 0.0
    for ax in range(3):
        o1 = [0, 0, 0]
        o1[ax] = 1
        o0 = [1, 0, 2]
        o01 = [a + b for a, b in zip(o0, o1)]
        e = np.zeros(3)
        e[ax] = h
        st = [gto.eval_deriv_basis([s], p0 + k * e, o0) for k in (-2, -1, 1, 2)]
        fd = (st[0] - 8 * st[1] + 8 * st[2] - st[3]) / (12 * h)
        an = gto.eval_deriv_basis([s], p0, o01)
        worst = max(worst, float(np.abs(fd - an).max() / np.abs(an).max()))
    rec("derivative model vs 5-point finite differences", worst, 1e-8)
    # --- rotation representation: moved shell at moved point == D * original at original point
    R = np.linalg.qr(rng.normal(size=(3, 3)))[0]
    dvec = rng.normal(size=3)
    worst = 0.0
    for t in ("cartesian", "spherical"):
        for l in range(0, 5):
            s = gto.RShell(l, rng.normal(size=3), [0.8, 1.7], [[1.0, 0.2], [0.4, -0.7]], t)
            sm = gto.RShell(l, R @ s.coord + dvec, s.exps, s.coeffs, t)
            pts = rng.normal(size=(4, 3))
            v0 = gto.eval_deriv_basis([s], pts, (0, 0, 0))
            v1 = gto.eval_deriv_basis([sm], pts @ R.T + dvec, (0, 0, 0))
            D = rotrep.shell_rep(s, R)
            worst = max(worst, float(np.abs(v1 - D @ v0).max()))
            worst = max(worst, float(np.abs(D @ D.T - np.eye(len(D))).max()) if t == "spherical" else 0.0)
    rec("rigid-motion representation matrices", worst, 1e-12)
    # --- D-algebra: force = -div stress by finite differences of the reference evaluations
    sh = [gto.RShell(1, [0.0, 0.1, 0.2], [0.9], [[1.0]], "cartesian"), gto.RShell(2, [0.3, 0.0, -0.2], [0.6, 1.4], [[1.0], [0.5]], "spherical")]
    n = sum(x.nfunc for x in sh)
    a = rng.normal(size=(n, n))
    dm = a + a.T
    pt = np.array([[0.2, -0.3, 0.4]])

    def val(t, p):
        return dalgebra.evaluate(t, dm, lambda o: gto.eval_deriv_basis(sh, p, o))

    worst = 0.0
    al, be_ = 0.7, 0.3
    for j in range(3):
        div = 0.0
        for i in range(3):
            e = np.zeros(3)
            e[i] = h
            st = [val(dalgebra.stress(i, j, al, be_), pt + k * e) for k in (-2, -1, 1, 2)]
            div = div + (st[0] - 8 * st[1] + 8 * st[2] - st[3]) / (12 * h)
        f = val(dalgebra.force(j, al, be_), pt)
        worst = max(worst, float(abs(f + div)[0] / (abs(f)[0] + 1e-3)))
    rec("D-algebra: force = -div(stress) (finite differences)", worst, 1e-7)
    return res


def main():
    t0 = time.time()
    full = "--full" in sys.argv
    res = run(full)
    ok = all(r[3] for r in res)
    for name, err, tol, good in res:
        print("%-70s %.2e (tol %.0e) %s" % (name, err, tol, "ok" if good else "FAILED"))
    print("selftest %s in %.1fs" % ("ok" if ok else "FAILED", time.time() - t0))
    with open(os.path.join(env.WORK, "selftest.json"), "w") as fh:
        json.dump({"ok": ok, "full": full, "results": res, "time": time.time()}, fh)
    sys.exit(0 if ok else 2)


if __name__ == "__main__":
    main()
