"""Shard worker: python -m vmon.worker <in.json> <out.json>  (one process, monitors installed)."""
import json
import os
import sys
import time
import traceback
import warnings

from vmon import env

env.bootstrap()
warnings.filterwarnings("ignore", category=SyntaxWarning)

import numpy as np  # noqa: E402

from vmon import core  # noqa: E402
from vmon.monitors import coverage, install as mi  # noqa: E402
from vmon.props import common as cm  # noqa: E402


def main():
    inp, outp = sys.argv[1], sys.argv[2]
    with open(inp) as fh:
        job = json.load(fh)
    mod = core.load_prop(job["pid"])
    coverage.start()
    mi.install()
    if hasattr(mod, "setup_worker"):
        mod.setup_worker(job["tier"], job["seed"])
    results = []
    incomplete = None
    for case in job["cases"]:
        mi.STATE.firings = []
        t0 = time.time()
        style = cm.set_style(case.get("cid", ""))
        try:
            with warnings.catch_warnings():
                warnings.simplefilter("ignore")
                r = mod.run_case(case)
        except MemoryError:
            r = {"harness_error": "MemoryError"}
        except Exception as exc:
            # every call the harness makes outside cm.call (constructors, setters, assign_norm_cont, make_contractions for a
            # shared basis ...) is legitimate use: an exception RAISED INSIDE gbasis on such a call is an observation about the
            # library, not a harness failure. Anything raised by harness code itself stays a harness error (inconclusive).
            tb = exc.__traceback__
            inside = False
            lib = os.path.realpath(os.path.join(env.REPO, "gbasis")) + os.sep
            own = os.path.realpath(env.VERIF) + os.sep
            while tb is not None:
                fn_ = os.path.realpath(tb.tb_frame.f_code.co_filename)
                if fn_.startswith(lib):
                    inside = True  # the exception came up through library code ...
                elif fn_.startswith(own) and os.sep + ".deps" + os.sep not in fn_:
                    inside = False  # ... unless harness code was entered again below it (callbacks)
                tb = tb.tb_next
            if inside:
                r = {"evals": 1, "nontrivial": True, "classes": case.get("classes", []), "errs": {},
                     "violations": [{"what": "a legitimate call made by the harness raised inside the library: %s: %s  [%s]" % (
                         type(exc).__name__, str(exc)[:200], traceback.format_exc()[-600:].replace("\n", " | ")), "qty": "exception:harness-step", "exc_type": type(exc).__name__}]}
            else:
                r = {"harness_error": traceback.format_exc()[-2000:]}
        r["cid"] = case["cid"]
        if isinstance(r.get("classes"), list):
            r["classes"] = r["classes"] + ["call-style:" + style]
        r["wall"] = round(time.time() - t0, 3)
        # firings of always-on monitors: owned ones become violations, others are recorded
        own, foreign = [], []
        for f in mi.STATE.take_firings():
            (own if f["owner"] in getattr(mod, "OWNS", (job["pid"],)) else foreign).append(f)
        if own and not getattr(mod, "HANDLES_FIRINGS", False):
            r.setdefault("violations", [])
            for f in own[:5]:
                r["violations"].append({"what": "%s fired in %s: %s" % (f["monitor"], f["function"], f["detail"]),
                                        "qty": f["monitor"], "function": f["function"]})
        if foreign:
            r["foreign_monitor_events"] = foreign[:5]
        if "harness_error" in r:
            incomplete = "harness error in case %s: %s" % (case["cid"], r["harness_error"][-600:])
        results.append(r)
    lists = {}
    if mi.STATE.boys:
        b = mi.STATE.boys
        lists["boys"] = [[max(x[0] for x in b), min(x[1] for x in b), max(x[2] for x in b), len(b)]]
    for k_, v_ in cm.STYLE["counts"].items():
        mi.STATE.counts["call-style:" + k_] = mi.STATE.counts.get("call-style:" + k_, 0) + v_
    if hasattr(mod, "worker_lists"):
        lists.update(mod.worker_lists())
    out = {"results": results, "counts": mi.STATE.counts, "cov": sorted(coverage.HITS), "lists": lists,
           "incomplete": incomplete}
    with open(outp, "w") as fh:
        json.dump(out, fh, default=core._jdefault)


if __name__ == "__main__":
    main()
