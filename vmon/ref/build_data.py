"""One-off builder of the frozen third-party reference sample (vmon/ref/data/horton_hhe.npz).

Run once at framework build time:  /venv/bin/python -m vmon.ref.build_data
Source: HORTON-generated arrays shipped as *data* under /repo/tests (they are not gbasis code) and the
ANO-RCC basis for H/He (exponents/coefficients stored as numbers here, so that the self-test does not
depend on /repo/tests or on the parser under test).
"""
import itertools as it
import json
import os

import numpy as np

from vmon import env

env.bootstrap()
D = os.path.join(env.REPO, "tests")


def main():
    from gbasis.parsers import make_contractions, parse_nwchem

    bd = parse_nwchem(os.path.join(D, "data_anorcc.nwchem"))

    def desc(basis):
        return [{"l": int(s.angmom), "c": s.coord.tolist(), "e": s.exps.tolist(), "k": s.coeffs.tolist()} for s in basis]

    out = {}
    coords = np.array([[0, 0, 0], [0.8 / 0.5291772083, 0, 0]])
    b1 = make_contractions(bd, ["H", "He"], coords, "cartesian")
    out["basis_int"] = json.dumps(desc(b1))
    out["overlap"] = np.load(os.path.join(D, "data_horton_hhe_cart_overlap.npy"))
    out["kinetic"] = np.load(os.path.join(D, "data_horton_hhe_cart_kinetic_energy_integral.npy"))
    out["nuc"] = np.load(os.path.join(D, "data_horton_hhe_cart_nucattract.npy"))
    out["nuc_coords"] = coords
    out["nuc_charges"] = np.array([1.0, 2.0])
    coords2 = np.array([[0, 0, 0], [0.8, 0, 0]])
    b2 = make_contractions(bd, ["H", "He"], coords2, "cartesian")
    out["basis_eval"] = json.dumps(desc(b2))
    g = np.linspace(-2, 2, num=5)
    gx, gy, gz = np.meshgrid(g, g, g)
    out["grid"] = np.vstack([gx.ravel(), gy.ravel(), gz.ravel()]).T
    out["eval_cart"] = np.load(os.path.join(D, "data_horton_hhe_cart_eval.npy")).T
    out["eval_sph"] = np.load(os.path.join(D, "data_horton_hhe_sph_eval.npy")).T
    # ERI: the modified 6-shell basis used by the repository's HORTON ERI comparison
    from gbasis.contractions import GeneralizedContractionShell as G

    b3 = list(b2)
    b3 = [G(i.angmom, i.coord, i.coeffs[:, 0], i.exps, i.coord_type) for i in b3[:8]]
    b3[0] = G(b3[0].angmom, b3[0].coord, b3[0].coeffs[3:], b3[0].exps[3:], "cartesian")
    b3[4] = G(b3[4].angmom, b3[4].coord, b3[4].coeffs[4:], b3[4].exps[4:], "cartesian")
    b3.pop(3)
    b3.pop(2)
    out["basis_eri"] = json.dumps(desc(b3))
    E = np.load(os.path.join(D, "data_horton_hhe_cart_elec_repulsion.npy"))  # physicists'
    nf = [(s.angmom + 1) * (s.angmom + 2) // 2 * s.num_seg_cont for s in b3]
    offs = np.cumsum([0] + nf)
    rng = np.random.default_rng(12345)
    quartets = set()
    allq = list(it.product(range(len(b3)), repeat=4))
    for i in rng.permutation(len(allq))[:48]:
        quartets.add(allq[i])
    quartets = sorted(quartets)
    out["eri_quartets"] = np.array(quartets)
    for n, (a, b, c, d) in enumerate(quartets):
        # chemists' (ab|cd) = physicists' [a, c, b, d]
        blk = E[offs[a]:offs[a + 1], offs[c]:offs[c + 1], offs[b]:offs[b + 1], offs[d]:offs[d + 1]].transpose(0, 2, 1, 3)
        out["eri_%02d" % n] = blk
    np.savez_compressed(os.path.join(env.VERIF, "vmon", "ref", "data", "horton_hhe.npz"), **out)
    print("written", {k: getattr(v, "shape", None) for k, v in out.items() if not k.startswith("eri_")})


if __name__ == "__main__":
    main()
