"""Prototype independent reference model for contracted Gaussian integrals/evaluations.

Algorithms deliberately differ from gbasis (Obara-Saika / HGP + scipy hyp1f1):
  * separable one-electron integrals: explicit polynomial algebra about the product centre P
    followed by closed-form Gaussian moments, in numpy.longdouble
  * Coulomb-type integrals: McMurchie-Davidson Hermite expansion; Boys function seeded by mpmath
    (arbitrary precision) at the top order + stable downward recursion
  * evaluations: polynomial * gaussian differentiation by explicit polynomial algebra
  * solid harmonics: complex-polynomial recurrences, numerically orthonormalised/phase fixed
"""
import itertools
import math
from functools import lru_cache

import mpmath
import numpy as np

LD = np.longdouble
mpmath.mp.dps = 40


def cart_components(l):
    return [(x, y, l - x - y) for x in range(l, -1, -1) for y in range(l - x, -1, -1)]


def dfact(n):
    # (n)!! for odd n >= -1
    r = 1
    while n > 1:
        r *= n
        n -= 2
    return r


def prim_norm(alpha, comp):
    l = sum(comp)
    alpha = LD(alpha)
    return (
        (2 * alpha / LD(np.pi)) ** LD(0.75)
        * (4 * alpha) ** (LD(l) / 2)
        / np.sqrt(LD(dfact(2 * comp[0] - 1) * dfact(2 * comp[1] - 1) * dfact(2 * comp[2] - 1)))
    )


# ---------------------------------------------------------------- polynomial helpers (longdouble)
def pmul(a, b):
    return np.convolve(a, b)


def padd(a, b):
    n = max(len(a), len(b))
    out = np.zeros(n, dtype=LD)
    out[: len(a)] += a
    out[: len(b)] += b
    return out


def pder(a):
    if len(a) <= 1:
        return np.zeros(1, dtype=LD)
    return a[1:] * np.arange(1, len(a), dtype=LD)


def pshiftpow(c, n):
    """coefficients (ascending) of (t + c)^n"""
    return np.array([LD(math.comb(n, k)) * LD(c) ** (n - k) for k in range(n + 1)], dtype=LD)


def gauss_moments(nmax, p):
    """int t^n exp(-p t^2) dt for n = 0..nmax"""
    out = np.zeros(nmax + 1, dtype=LD)
    out[0] = np.sqrt(LD(np.pi) / p)
    for n in range(2, nmax + 1, 2):
        out[n] = out[n - 2] * (n - 1) / (2 * p)
    return out


def table_1d(alpha, A, beta, B, la, lb, C=0.0, emax=0, kmax=0):
    """I[e, k, i, j] = int (x-A)^i e^{-alpha (x-A)^2} (x-C)^e d^k/dx^k [ (x-B)^j e^{-beta (x-B)^2} ] dx"""
    alpha, A, beta, B, C = LD(alpha), LD(A), LD(beta), LD(B), LD(C)
    p = alpha + beta
    P = (alpha * A + beta * B) / p
    K = np.exp(-alpha * beta / p * (A - B) ** 2)
    mom = gauss_moments(la + lb + emax + kmax + 2, p)
    out = np.zeros((emax + 1, kmax + 1, la + 1, lb + 1), dtype=LD)
    tB = np.array([P - B, 1], dtype=LD)  # (x - B) as polynomial in t = x - P
    for j in range(lb + 1):
        q = pshiftpow(P - B, j)
        qs = [q]
        for _ in range(kmax):
            q = padd(pder(q), -2 * beta * pmul(tB, q))
            qs.append(q)
        for k in range(kmax + 1):
            for e in range(emax + 1):
                qe = pmul(qs[k], pshiftpow(P - C, e))
                for i in range(la + 1):
                    full = pmul(qe, pshiftpow(P - A, i))
                    out[e, k, i, j] = K * np.dot(full, mom[: len(full)])
    return out


# ---------------------------------------------------------------- shells
class RShell:
    """Plain-data description of a shell (taken from attributes of the gbasis object)."""

    def __init__(self, l, coord, exps, coeffs, coord_type="cartesian", cart_order=None, sph_order=None):
        self.l = int(l)
        self.coord = np.asarray(coord, dtype=float)
        self.exps = np.asarray(exps, dtype=float)
        coeffs = np.asarray(coeffs, dtype=float)
        self.coeffs = coeffs[:, None] if coeffs.ndim == 1 else coeffs
        self.coord_type = {"c": "cartesian", "p": "spherical"}.get(coord_type, coord_type)
        self.cart_order = cart_components(self.l) if cart_order is None else [tuple(int(v) for v in c) for c in cart_order]
        self.sph_order = default_sph_order(self.l) if sph_order is None else list(sph_order)

    @classmethod
    def from_gbasis(cls, s, documented_order=True):
        if documented_order:
            return cls(s.angmom, s.coord, s.exps, s.coeffs, s.coord_type)
        return cls(s.angmom, s.coord, s.exps, s.coeffs, s.coord_type, s.angmom_components_cart, s.angmom_components_sph)

    @property
    def K(self):
        return len(self.exps)

    @property
    def M(self):
        return self.coeffs.shape[1]

    @property
    def ncart(self):
        return (self.l + 1) * (self.l + 2) // 2

    @property
    def nfunc(self):
        return self.M * (self.ncart if self.coord_type == "cartesian" else 2 * self.l + 1)

    def primnorms(self):
        # (L, K)
        return np.array([[prim_norm(a, c) for a in self.exps] for c in self.cart_order], dtype=LD)

    @property
    def w(self):
        """(M, L, K) weights: contraction-normalised coefficient of primitive k in function (m, comp)"""
        if not hasattr(self, "_w"):
            pn = self.primnorms()  # (L,K)
            w = self.coeffs.T[:, None, :].astype(LD) * pn[None, :, :]  # (M,L,K)
            # self overlap for normalisation
            S = np.zeros((self.M, self.ncart), dtype=LD)
            for k1, a1 in enumerate(self.exps):
                for k2, a2 in enumerate(self.exps):
                    t = table_1d(a1, 0.0, a2, 0.0, self.l, self.l)[0, 0]
                    for ic, c in enumerate(self.cart_order):
                        S[:, ic] += w[:, ic, k1] * w[:, ic, k2] * t[c[0], c[0]] * t[c[1], c[1]] * t[c[2], c[2]]
            self._w = w / np.sqrt(S)[:, :, None]
        return self._w

    @property
    def cont_norm(self):
        """(M, L) contraction normalisation constants of the model: 1/sqrt(<f|f>) of the contraction
        built from coefficient x primitive norm (what gbasis calls norm_cont, computed independently)."""
        w = self.w
        pn = self.primnorms()
        out = np.zeros((self.M, self.ncart))
        for m in range(self.M):
            k = int(np.argmax(np.abs(self.coeffs[:, m])))  # a primitive with a non-zero coefficient in this column
            out[m] = np.asarray(w[m, :, k] / (LD(self.coeffs[k, m]) * pn[:, k]), dtype=float)
        return out

    def to_funcs(self):
        """matrix (nfunc, M*ncart) from normalised cartesian functions (segment-major) to functions"""
        if self.coord_type == "cartesian":
            return np.eye(self.M * self.ncart)
        T = sph_transform(self.l, tuple(self.cart_order), tuple(self.sph_order))  # (2l+1, ncart)
        return np.kron(np.eye(self.M), T)


def default_sph_order(l):
    if l == 1:
        return ["c1", "s1", "c0"]
    return ["s%d" % m for m in range(l, 0, -1)] + ["c%d" % m for m in range(l + 1)]


# ---------------------------------------------------------------- solid harmonics (independent)
def _cpoly_mul(a, b):
    out = {}
    for (k1, v1), (k2, v2) in itertools.product(a.items(), b.items()):
        k = (k1[0] + k2[0], k1[1] + k2[1], k1[2] + k2[2])
        out[k] = out.get(k, 0) + v1 * v2
    return out


def _cpoly_add(a, b, fb=1):
    out = dict(a)
    for k, v in b.items():
        out[k] = out.get(k, 0) + fb * v
    return out


@lru_cache(None)
def complex_solid_harmonic(l, m):
    """unnormalised r^l P_l^m(cos th) e^{i m phi}-like polynomial {(ax,ay,az): complex}, m>=0.

    Built from  Y_m^m ~ (x+iy)^m  and the z-recurrence
    (l-m+1) R_{l+1,m} = (2l+1) z R_{l,m} - (l+m) r^2 R_{l-1,m}
    """
    xpiy = {(1, 0, 0): 1 + 0j, (0, 1, 0): 1j}
    z = {(0, 0, 1): 1 + 0j}
    r2 = {(2, 0, 0): 1 + 0j, (0, 2, 0): 1 + 0j, (0, 0, 2): 1 + 0j}
    cur = {(0, 0, 0): 1 + 0j}
    for _ in range(m):
        cur = _cpoly_mul(cur, xpiy)
    prev = None
    ll = m
    while ll < l:
        nxt = {k: v * (2 * ll + 1) for k, v in _cpoly_mul(z, cur).items()}
        if prev is not None:
            nxt = _cpoly_add(nxt, {k: v * (ll + m) for k, v in _cpoly_mul(r2, prev).items()}, -1)
        nxt = {k: v / (ll - m + 1) for k, v in nxt.items()}
        prev, cur = cur, nxt
        ll += 1
    return cur


def gauss3d_monomial_moment(n):
    """int x^nx y^ny z^nz exp(-r^2) (up to a common factor): product of (n-1)!!/2^{n/2}"""
    out = 1.0
    for k in n:
        if k % 2:
            return 0.0
        out *= dfact(k - 1) / 2.0 ** (k / 2)
    return out


@lru_cache(None)
def sph_transform(l, cart_order, sph_order):
    """(2l+1, ncart) matrix: spherical function = sum_c T[mu, c] * (unit-normalised cartesian c)."""
    cart_order = list(cart_order)
    idx = {c: i for i, c in enumerate(cart_order)}
    rows = []
    for lab in sph_order:
        sign = 1.0
        if lab.startswith("-"):
            sign, lab = -1.0, lab[1:]
        kind, m = lab[0], int(lab[1:])
        pol = complex_solid_harmonic(l, m)
        vec = np.zeros(len(cart_order))
        for k, v in pol.items():
            vec[idx[k]] += v.real if kind == "c" else v.imag
        # polynomial coefficients -> coefficients w.r.t. unit-normalised cartesian monomial gaussians
        # a unit-normalised cartesian is N_c * monomial, N_c ~ 1/sqrt((2ax-1)!!(2ay-1)!!(2az-1)!!)
        ncart = np.array([1 / math.sqrt(dfact(2 * c[0] - 1) * dfact(2 * c[1] - 1) * dfact(2 * c[2] - 1)) for c in cart_order])
        coef = vec / ncart
        # normalise: <f|f> with metric G_cc' = N_c N_c' <mono_c|mono_c'> / common
        G = np.array(
            [[ncart[i] * ncart[j] * gauss3d_monomial_moment(tuple(a + b for a, b in zip(ci, cj))) for j, cj in enumerate(cart_order)] for i, ci in enumerate(cart_order)]
        )
        G = G / G[0, 0] * 1.0  # overall scale: G_cc must be 1 on the diagonal
        G = G / np.sqrt(np.outer(np.diag(G), np.diag(G)))
        coef = coef / math.sqrt(coef @ G @ coef)
        # phase: positive factor of cos(m phi)/sin(m phi) near the pole -> with the recurrences above
        # (x+iy)^m * (positive polynomial in z near pole) : already positive for z>0.
        rows.append(sign * coef)
    return np.array(rows)


# ---------------------------------------------------------------- one-electron cartesian blocks
def _pair_tables(sa, sb, C=(0, 0, 0), emax=0, kmax=0):
    """tables[ka][kb][axis] -> array[e,k,i,j]"""
    return [
        [
            [table_1d(a, sa.coord[ax], b, sb.coord[ax], sa.l, sb.l, C[ax], emax, kmax) for ax in range(3)]
            for b in sb.exps
        ]
        for a in sa.exps
    ]


def cart_block(sa, sb, term_fn, C=(0, 0, 0), emax=0, kmax=0, nout=1):
    """generic normalised cartesian block (M_a*L_a, M_b*L_b, nout); term_fn(tx,ty,tz,ca,cb)->(nout,)"""
    wa, wb = sa.w, sb.w
    tabs = _pair_tables(sa, sb, C, emax, kmax)
    out = np.zeros((sa.M, sa.ncart, sb.M, sb.ncart, nout), dtype=LD)
    for ka in range(sa.K):
        for kb in range(sb.K):
            tx, ty, tz = tabs[ka][kb]
            prim = np.zeros((sa.ncart, sb.ncart, nout), dtype=LD)
            for ia, ca in enumerate(sa.cart_order):
                for ib, cb in enumerate(sb.cart_order):
                    prim[ia, ib] = term_fn(tx, ty, tz, ca, cb)
            out += wa[:, :, None, None, None, ka] * wb[None, None, :, :, None, kb] * prim[None, :, None, :, :]
    return out.reshape(sa.M * sa.ncart, sb.M * sb.ncart, nout)


def overlap_block(sa, sb):
    f = lambda tx, ty, tz, a, b: [tx[0, 0, a[0], b[0]] * ty[0, 0, a[1], b[1]] * tz[0, 0, a[2], b[2]]]
    return cart_block(sa, sb, f)[:, :, 0]


def kinetic_block(sa, sb):
    def f(tx, ty, tz, a, b):
        sx, sy, sz = tx[0, 0, a[0], b[0]], ty[0, 0, a[1], b[1]], tz[0, 0, a[2], b[2]]
        dx, dy, dz = tx[0, 2, a[0], b[0]], ty[0, 2, a[1], b[1]], tz[0, 2, a[2], b[2]]
        return [-0.5 * (dx * sy * sz + sx * dy * sz + sx * sy * dz)]

    return cart_block(sa, sb, f, kmax=2)[:, :, 0]


def grad_block(sa, sb):
    """<a| d/dx_i |b> (real)"""

    def f(tx, ty, tz, a, b):
        sx, sy, sz = tx[0, 0, a[0], b[0]], ty[0, 0, a[1], b[1]], tz[0, 0, a[2], b[2]]
        dx, dy, dz = tx[0, 1, a[0], b[0]], ty[0, 1, a[1], b[1]], tz[0, 1, a[2], b[2]]
        return [dx * sy * sz, sx * dy * sz, sx * sy * dz]

    return cart_block(sa, sb, f, kmax=1, nout=3)


def rxgrad_block(sa, sb, origin=(0, 0, 0)):
    """<a| (r - O) x grad |b> (real)"""

    def f(tx, ty, tz, a, b):
        t = (tx, ty, tz)
        s = [t[i][0, 0, a[i], b[i]] for i in range(3)]
        d = [t[i][0, 1, a[i], b[i]] for i in range(3)]
        m = [t[i][1, 0, a[i], b[i]] for i in range(3)]
        return [
            s[0] * (m[1] * d[2] - d[1] * m[2]),
            s[1] * (m[2] * d[0] - d[2] * m[0]),
            s[2] * (m[0] * d[1] - d[0] * m[1]),
        ]

    return cart_block(sa, sb, f, C=origin, emax=1, kmax=1, nout=3)


def moment_block(sa, sb, origin, orders):
    orders = [tuple(int(v) for v in o) for o in orders]
    emax = max(max(o) for o in orders)

    def f(tx, ty, tz, a, b):
        return [tx[o[0], 0, a[0], b[0]] * ty[o[1], 0, a[1], b[1]] * tz[o[2], 0, a[2], b[2]] for o in orders]

    return cart_block(sa, sb, f, C=origin, emax=emax, nout=len(orders))


# ---------------------------------------------------------------- Hermite / Coulomb machinery
def hermite_E(alpha, A, beta, B, la, lb):
    """E[i, j, t] McMurchie-Davidson expansion coefficients for one axis (longdouble)."""
    alpha, A, beta, B = LD(alpha), LD(A), LD(beta), LD(B)
    p = alpha + beta
    P = (alpha * A + beta * B) / p
    XPA, XPB = P - A, P - B
    E = np.zeros((la + 1, lb + 1, la + lb + 2), dtype=LD)
    E[0, 0, 0] = np.exp(-alpha * beta / p * (A - B) ** 2)
    for i in range(la):
        for t in range(i + 2):
            v = XPA * E[i, 0, t] + (t + 1) * E[i, 0, t + 1]
            if t > 0:
                v += E[i, 0, t - 1] / (2 * p)
            E[i + 1, 0, t] = v
    for j in range(lb):
        for i in range(la + 1):
            for t in range(i + j + 2):
                v = XPB * E[i, j, t] + (t + 1) * E[i, j, t + 1]
                if t > 0:
                    v += E[i, j, t - 1] / (2 * p)
                E[i, j + 1, t] = v
    return E[:, :, : la + lb + 1]


def boys_all(nmax, x):
    """F_0..F_nmax (x) as longdouble, x scalar or array; top order from mpmath, downward recursion.

    Returns array of shape (nmax+1,) + x.shape.
    """
    x = np.asarray(x, dtype=LD)
    flat = x.reshape(-1)
    top = np.zeros(flat.shape, dtype=LD)
    for i, xv in enumerate(flat):
        if xv == 0:
            t = mpmath.mpf(1) / (2 * nmax + 1)
        else:
            xm = mpmath.mpf(float(xv))
            lo = float(xv - LD(float(xv)))  # longdouble remainder, first-order correction dF_n/dx = -F_{n+1}
            t = mpmath.hyp1f1(nmax + 0.5, nmax + 1.5, -xm) / (2 * nmax + 1)
            if lo != 0.0:
                t = t - mpmath.mpf(lo) * mpmath.hyp1f1(nmax + 1.5, nmax + 2.5, -xm) / (2 * nmax + 3)
        top[i] = LD(str(mpmath.nstr(t, 30)))
    out = np.zeros((nmax + 1,) + flat.shape, dtype=LD)
    out[nmax] = top
    ex = np.exp(-flat)
    for n in range(nmax, 0, -1):
        out[n - 1] = (2 * flat * out[n] + ex) / (2 * n - 1)
    return out.reshape((nmax + 1,) + x.shape)


def hermite_R(L, p, PC):
    """R[t,u,v] (n=0) for t+u+v <= L, Coulomb Hermite integrals. PC: (3,) or (N,3) -> R[t,u,v(,N)]."""
    PC = np.asarray(PC, dtype=LD)
    single = PC.ndim == 1
    if single:
        PC = PC[None, :]
    N = PC.shape[0]
    p = LD(p)
    F = boys_all(L, p * np.sum(PC * PC, axis=1))  # (L+1, N)
    X, Y, Zc = PC[:, 0], PC[:, 1], PC[:, 2]
    Rn = np.zeros((L + 1, L + 1, L + 1, L + 1, N), dtype=LD)  # n,t,u,v
    for n in range(L + 1):
        Rn[n, 0, 0, 0] = (-2 * p) ** n * F[n]
    for n in range(L - 1, -1, -1):
        for t in range(L - n + 1):
            for u in range(L - n - t + 1):
                for v in range(L - n - t - u + 1):
                    if t + u + v == 0:
                        continue
                    if t > 0:
                        val = X * Rn[n + 1, t - 1, u, v]
                        if t > 1:
                            val = val + (t - 1) * Rn[n + 1, t - 2, u, v]
                    elif u > 0:
                        val = Y * Rn[n + 1, t, u - 1, v]
                        if u > 1:
                            val = val + (u - 1) * Rn[n + 1, t, u - 2, v]
                    else:
                        val = Zc * Rn[n + 1, t, u, v - 1]
                        if v > 1:
                            val = val + (v - 1) * Rn[n + 1, t, u, v - 2]
                    Rn[n, t, u, v] = val
    out = Rn[0]
    return out[..., 0] if single else out


def _pair_E3(sa, sb, ka, kb):
    """Eab[ia, ib, t, u, v] for all component pairs of the primitive pair"""
    a, b = sa.exps[ka], sb.exps[kb]
    Es = [hermite_E(a, sa.coord[ax], b, sb.coord[ax], sa.l, sb.l) for ax in range(3)]
    L = sa.l + sb.l
    out = np.zeros((sa.ncart, sb.ncart, L + 1, L + 1, L + 1), dtype=LD)
    for ia, ca in enumerate(sa.cart_order):
        for ib, cb in enumerate(sb.cart_order):
            out[ia, ib] = (
                Es[0][ca[0], cb[0]][:, None, None] * Es[1][ca[1], cb[1]][None, :, None] * Es[2][ca[2], cb[2]][None, None, :]
            )
    return out


def nuclear_block(sa, sb, points, charges=None):
    """integral of phi_a phi_b * (-q/|r-R|) per point: (nA, nB, N)"""
    points = np.asarray(points, dtype=float)
    q = np.ones(len(points)) if charges is None else np.asarray(charges, dtype=float)
    wa, wb = sa.w, sb.w
    L = sa.l + sb.l
    out = np.zeros((sa.M, sa.ncart, sb.M, sb.ncart, len(points)), dtype=LD)
    for ka in range(sa.K):
        for kb in range(sb.K):
            a, b = LD(sa.exps[ka]), LD(sb.exps[kb])
            p = a + b
            P = (a * sa.coord.astype(LD) + b * sb.coord.astype(LD)) / p
            E3 = _pair_E3(sa, sb, ka, kb)
            Rt = hermite_R(L, p, P[None, :] - points.astype(LD))  # (t,u,v,N)
            prim = -q.astype(LD)[None, None, :] * 2 * LD(np.pi) / p * np.einsum("abtuv,tuvn->abn", E3, Rt)
            out += wa[:, :, None, None, None, ka] * wb[None, None, :, :, None, kb] * prim[None, :, None, :, :]
    return out.reshape(sa.M * sa.ncart, sb.M * sb.ncart, len(points))


def eri_block(sa, sb, sc, sd, dtype=np.float64):
    """(ab|cd) chemists' notation, normalised cartesian functions, shape (nA, nB, nC, nD)"""
    wa, wb, wc, wd = sa.w, sb.w, sc.w, sd.w
    L1, L2 = sa.l + sb.l, sc.l + sd.l
    L = L1 + L2
    out = np.zeros((sa.M * sa.ncart, sb.M * sb.ncart, sc.M * sc.ncart, sd.M * sd.ncart), dtype=dtype)
    # index helpers
    T1 = [(t, u, v) for t in range(L1 + 1) for u in range(L1 + 1 - t) for v in range(L1 + 1 - t - u)]
    T2 = [(t, u, v) for t in range(L2 + 1) for u in range(L2 + 1 - t) for v in range(L2 + 1 - t - u)]
    i1 = tuple(np.array(x) for x in zip(*T1))
    i2 = tuple(np.array(x) for x in zip(*T2))
    sgn = np.array([(-1) ** (t + u + v) for (t, u, v) in T2], dtype=dtype)
    idx = (i1[0][:, None] + i2[0][None, :], i1[1][:, None] + i2[1][None, :], i1[2][:, None] + i2[2][None, :])
    cdE = {}
    for kc in range(sc.K):
        for kd in range(sd.K):
            E3 = _pair_E3(sc, sd, kc, kd)[:, :, i2[0], i2[1], i2[2]]  # (nc, nd, T2)
            Wcd = np.einsum("mck,ndl->mcnd", wc[:, :, [kc]], wd[:, :, [kd]])  # (Mc,Lc,Md,Ld)
            cdE[kc, kd] = (E3 * sgn).astype(dtype), Wcd.astype(dtype)
    for ka in range(sa.K):
        for kb in range(sb.K):
            a, b = LD(sa.exps[ka]), LD(sb.exps[kb])
            p = a + b
            P = (a * sa.coord.astype(LD) + b * sb.coord.astype(LD)) / p
            Eab = _pair_E3(sa, sb, ka, kb)[:, :, i1[0], i1[1], i1[2]].astype(dtype)  # (na, nb, T1)
            Wab = np.einsum("mak,nbl->manb", wa[:, :, [ka]], wb[:, :, [kb]]).astype(dtype)
            for kc in range(sc.K):
                for kd in range(sd.K):
                    c, d = LD(sc.exps[kc]), LD(sd.exps[kd])
                    q = c + d
                    Q = (c * sc.coord.astype(LD) + d * sd.coord.astype(LD)) / q
                    alpha = p * q / (p + q)
                    R = hermite_R(L, alpha, P - Q)
                    Rm = R[idx].astype(dtype)  # (T1, T2)
                    pref = dtype(2 * LD(np.pi) ** LD(2.5) / (p * q * np.sqrt(p + q)))
                    Ecd, Wcd = cdE[kc, kd]
                    prim = pref * np.einsum("abs,st,cdt->abcd", Eab, Rm, Ecd, optimize=True)
                    full = (
                        Wab[:, :, :, :, None, None, None, None]
                        * Wcd[None, None, None, None, :, :, :, :]
                        * prim[None, :, None, :, None, :, None, :]
                    )
                    out += full.reshape(out.shape)
    return out


# ---------------------------------------------------------------- whole-basis assembly
def assemble2(shells, block_fn, nextra=0):
    """full matrix over all functions from per-shell-pair cartesian blocks (both orientations computed)"""
    Cs = [s.to_funcs() for s in shells]
    rows = []
    for i, si in enumerate(shells):
        row = []
        for j, sj in enumerate(shells):
            blk = np.asarray(block_fn(si, sj), dtype=float)
            blk = np.tensordot(Cs[i], blk, (1, 0))
            blk = np.moveaxis(np.tensordot(Cs[j], blk, (1, 1)), 0, 1)
            row.append(blk)
        rows.append(np.concatenate(row, axis=1))
    return np.concatenate(rows, axis=0)


def assemble2_asym(shells1, shells2, block_fn):
    C1 = [s.to_funcs() for s in shells1]
    C2 = [s.to_funcs() for s in shells2]
    rows = []
    for i, si in enumerate(shells1):
        row = []
        for j, sj in enumerate(shells2):
            blk = np.asarray(block_fn(si, sj), dtype=float)
            blk = np.tensordot(C1[i], blk, (1, 0))
            blk = np.moveaxis(np.tensordot(C2[j], blk, (1, 1)), 0, 1)
            row.append(blk)
        rows.append(np.concatenate(row, axis=1))
    return np.concatenate(rows, axis=0)


def assemble4(shells, block_fn=eri_block):
    Cs = [s.to_funcs() for s in shells]
    n = len(shells)
    offs = np.cumsum([0] + [s.nfunc for s in shells])
    out = np.zeros((offs[-1],) * 4)
    for i, j, k, l in itertools.product(range(n), repeat=4):
        blk = block_fn(shells[i], shells[j], shells[k], shells[l])
        blk = np.einsum("ia,jb,kc,ld,abcd->ijkl", Cs[i], Cs[j], Cs[k], Cs[l], blk, optimize=True)
        out[offs[i] : offs[i + 1], offs[j] : offs[j + 1], offs[k] : offs[k + 1], offs[l] : offs[l + 1]] = blk
    return out


# ---------------------------------------------------------------- evaluations
def eval_deriv_shell(s, points, orders, with_scale=False):
    """values of d^orders of every normalised cartesian function of shell s: (M*L, N)

    with_scale: also return the sum of absolute values of all terms (conditioning scale)
    """
    pts = np.asarray(points, dtype=float)
    w = s.w  # (M,L,K)
    N = len(pts)
    out = np.zeros((s.M, s.ncart, N), dtype=LD)
    sca = np.zeros((s.M, s.ncart, N), dtype=LD)
    rel = (pts - s.coord[None, :]).astype(LD)  # (N,3)
    for k, a in enumerate(s.exps):
        a = LD(a)
        axvals, axabs = [], []
        for ax in range(3):
            m = int(orders[ax])
            vals = np.zeros((s.l + 1, N), dtype=LD)
            avals = np.zeros((s.l + 1, N), dtype=LD)
            for n in range(s.l + 1):
                q = np.zeros(n + 1, dtype=LD)
                q[n] = 1
                for _ in range(m):
                    q = padd(pder(q), -2 * a * pmul(np.array([0, 1], dtype=LD), q))
                t = rel[:, ax]
                pv = np.zeros(N, dtype=LD)
                pa = np.zeros(N, dtype=LD)
                for c in q[::-1]:
                    pv = pv * t + c
                    pa = pa * np.abs(t) + np.abs(c)
                g = np.exp(-a * t * t)
                vals[n] = pv * g
                avals[n] = pa * g
            axvals.append(vals)
            axabs.append(avals)
        prim = np.array([axvals[0][c[0]] * axvals[1][c[1]] * axvals[2][c[2]] for c in s.cart_order])  # (L,N)
        pabs = np.array([axabs[0][c[0]] * axabs[1][c[1]] * axabs[2][c[2]] for c in s.cart_order])
        out += w[:, :, k][:, :, None] * prim[None, :, :]
        sca += np.abs(w[:, :, k])[:, :, None] * pabs[None, :, :]
    out = out.reshape(s.M * s.ncart, N)
    if with_scale:
        return out, sca.reshape(s.M * s.ncart, N)
    return out


def eval_deriv_basis(shells, points, orders, with_scale=False):
    vals, scas = [], []
    for s in shells:
        v, sc = eval_deriv_shell(s, points, orders, with_scale=True)
        C = s.to_funcs()
        vals.append(C @ v.astype(float))
        scas.append(np.abs(C) @ sc.astype(float))
    if with_scale:
        return np.concatenate(vals, axis=0), np.concatenate(scas, axis=0)
    return np.concatenate(vals, axis=0)


# ---------------------------------------------------------------- conveniences used by the drivers
def shells_from_gbasis(basis, reported=False, coord_types=None):
    """RShell list from gbasis shell objects.

    reported=False: the *documented default* orders are used (what C01..C08 specify);
    reported=True : the orders the shell object itself reports (what C09 specifies).
    """
    out = []
    for i, s in enumerate(basis):
        r = RShell.from_gbasis(s, documented_order=not reported)
        if coord_types is not None:
            r.coord_type = {"c": "cartesian", "p": "spherical"}.get(coord_types[i], coord_types[i])
        out.append(r)
    return out


def offsets(shells):
    return np.cumsum([0] + [s.nfunc for s in shells])


def overlap(shells):
    return assemble2(shells, overlap_block)


def overlap_asym(sh1, sh2):
    return assemble2_asym(sh1, sh2, overlap_block)


def kinetic(shells):
    return assemble2(shells, kinetic_block)


def point_charge(shells, points, charges):
    return assemble2(shells, lambda a, b: nuclear_block(a, b, points, charges))


def moments(shells, origin, orders):
    return assemble2(shells, lambda a, b: moment_block(a, b, origin, orders))


def momentum(shells):
    """-i <a| grad |b>, complex (n, n, 3)"""
    return -1j * assemble2(shells, grad_block)


def angular_momentum(shells, origin=(0, 0, 0)):
    """-i <a| r x grad |b>, complex (n, n, 3)"""
    return -1j * assemble2(shells, lambda a, b: rxgrad_block(a, b, origin))


def eri(shells):
    return assemble4(shells)


def boys_ref(order, x):
    """Boys function F_order(x) to ~30 digits via mpmath (float result)."""
    xm = mpmath.mpf(float(x))
    if xm == 0:
        return 1.0 / (2 * order + 1)
    return float(mpmath.hyp1f1(order + 0.5, order + 1.5, -xm) / (2 * order + 1))
