"""D-algebra: formal linear combinations of D(p,q)(r) = sum_ij gamma_ij d^p phi_i(r) d^q phi_j(r).

The only rule is the total-derivative (Leibniz) rule d/dr_k D(p,q) = D(p+e_k,q) + D(p,q+e_k); every
density-derived quantity is *entered from its definition* and differentiated formally.
"""
import numpy as np

Z = (0, 0, 0)


def term(p, q, c=1.0):
    return {(tuple(p), tuple(q)): c}


def add(*ts):
    out = {}
    for t in ts:
        for k, v in t.items():
            out[k] = out.get(k, 0) + v
    return out


def scale(t, c):
    return {k: v * c for k, v in t.items()}


def e(i):
    return tuple(1 if j == i else 0 for j in range(3))


def plus(a, b):
    return tuple(x + y for x, y in zip(a, b))


def ddr(t, k, n=1):
    """n-fold total derivative d/dr_k of the diagonal."""
    for _ in range(n):
        out = {}
        for (p, q), v in t.items():
            for key in ((plus(p, e(k)), q), (p, plus(q, e(k)))):
                out[key] = out.get(key, 0) + v
        t = out
    return t


def rho():
    return term(Z, Z)


def deriv_density(orders):
    t = rho()
    for k in range(3):
        t = ddr(t, k, int(orders[k]))
    return t


def laplacian():
    t = rho()
    return add(*[ddr(t, k, 2) for k in range(3)])


def posdef_ked():
    return scale(add(*[term(e(k), e(k)) for k in range(3)]), 0.5)


def general_ked(alpha):
    return add(posdef_ked(), scale(laplacian(), alpha))


def stress(i, j, alpha, beta):
    t = add(
        scale(add(term(e(i), e(j)), term(e(j), e(i))), -0.5 * alpha),
        scale(add(term(plus(e(i), e(j)), Z), term(Z, plus(e(i), e(j)))), 0.5 * (1 - alpha)),
    )
    if i == j:
        t = add(t, scale(laplacian(), -0.5 * beta))
    return t


def force(j, alpha, beta):
    return scale(add(*[ddr(stress(i, j, alpha, beta), i) for i in range(3)]), -1.0)


def ehess(j, k, alpha, beta):
    return ddr(force(j, alpha, beta), k)


def needed_orders(t):
    out = set()
    for (p, q), v in t.items():
        if v != 0:
            out.add(p)
            out.add(q)
    return out


def evaluate(t, dm, derivs, scales=None):
    """derivs(p) -> array (nfunc, N). Returns value (N,) and, if scales given, conditioning scale."""
    out = 0.0
    sc = 0.0
    adm = np.abs(dm)
    for (p, q), v in t.items():
        if v == 0:
            continue
        out = out + v * np.einsum("ij,in,jn->n", dm, derivs(p), derivs(q))
        if scales is not None:
            sc = sc + abs(v) * np.einsum("ij,in,jn->n", adm, scales(p), scales(q))
    if scales is not None:
        return out, sc
    return out


# ---- the three documented groups of the stress tensor kept apart: the conditioning scale of a quantity is
# the sum of the scales of its documented groups (the documented expanded formulas add these groups
# numerically, so cancellation *between* groups is inherent in the documented expression)
def stress_parts(i, j, alpha, beta):
    parts = [
        scale(add(term(e(i), e(j)), term(e(j), e(i))), -0.5 * alpha),
        scale(add(term(plus(e(i), e(j)), Z), term(Z, plus(e(i), e(j)))), 0.5 * (1 - alpha)),
    ]
    if i == j:
        parts.append(scale(laplacian(), -0.5 * beta))
    else:
        parts.append({})
    return parts


def force_parts(j, alpha, beta):
    out = []
    for g in range(3):
        out.append(scale(add(*[ddr(stress_parts(i, j, alpha, beta)[g], i) for i in range(3)]), -1.0))
    return out


def ehess_parts(j, k, alpha, beta):
    return [ddr(p, k) for p in force_parts(j, alpha, beta)]


def evaluate_parts(parts, dm, derivs, scales):
    """value of the sum of the parts, and the sum of the parts' conditioning scales"""
    val, sc = 0.0, 0.0
    for p in parts:
        if not p:
            continue
        v, s = evaluate(p, dm, derivs, scales)
        val = val + v
        sc = sc + s
    return val, sc
