"""Orthogonal representation matrices of a rigid rotation/reflection R on the functions of a shell.

phi'_c(r) = phi_c(R^T (r - d))  (the shell moved with the system) expressed in the functions of the
moved shell's own frame:  phi_c(R^T u) = sum_c' D[c, c'] phi_c'(u)   -- polynomial expansion, no
Wigner formulas.
"""
import math

import numpy as np

from vmon.ref import gto


def _poly_pow_lin(coefs, n):
    out = {}
    for a in range(n + 1):
        for b in range(n - a + 1):
            c = n - a - b
            out[(a, b, c)] = (
                math.factorial(n) / (math.factorial(a) * math.factorial(b) * math.factorial(c))
                * coefs[0] ** a * coefs[1] ** b * coefs[2] ** c
            )
    return out


def _pmul(p, q):
    out = {}
    for k1, v1 in p.items():
        for k2, v2 in q.items():
            k = (k1[0] + k2[0], k1[1] + k2[1], k1[2] + k2[2])
            out[k] = out.get(k, 0.0) + v1 * v2
    return out


def cart_rep(l, R, order):
    """D[c, c']: monomial c of (R^T u) expanded in unit-normalised monomials c' of u."""
    Rt = np.asarray(R, dtype=float).T
    order = [tuple(int(v) for v in c) for c in order]
    idx = {c: i for i, c in enumerate(order)}
    nrm = np.array(
        [1 / math.sqrt(gto.dfact(2 * c[0] - 1) * gto.dfact(2 * c[1] - 1) * gto.dfact(2 * c[2] - 1)) for c in order]
    )
    D = np.zeros((len(order),) * 2)
    for i, c in enumerate(order):
        p = {(0, 0, 0): 1.0}
        for ax in range(3):
            p = _pmul(p, _poly_pow_lin(Rt[ax], c[ax]))  # ((R^T u)_ax)^{c_ax}
        for k, v in p.items():
            D[i, idx[k]] += v * nrm[i] / nrm[idx[k]]
    return D


def shell_rep(s, R):
    """Matrix acting on the function index (segment-major) of RShell ``s``.

    If f_i are the functions of the original shell and f'_i those of the moved shell (centre R c + d,
    same exponents/coefficients), then  f'_i(R r + d) = sum_j Dinv... ; we return D with
    f'_i(r') = sum_j D[i, j] f_j(r) evaluated at r' = R r + d  <=>  f'(r') = D f(r).
    """
    # f'_c(r') = N (r'-c')^c g = N (R (r-c))^c g  -> monomial c of (R u), u = r - c
    D = cart_rep(s.l, np.asarray(R).T, s.cart_order)
    if s.coord_type == "spherical":
        T = gto.sph_transform(s.l, tuple(s.cart_order), tuple(s.sph_order))
        D = T @ D @ np.linalg.pinv(T)
    return np.kron(np.eye(s.M), D)


def basis_rep(shells, R):
    import scipy.linalg as sl

    return sl.block_diag(*[shell_rep(s, R) for s in shells])
